//go:build verif
// +build verif

package srv

import jrpc "github.com/AdamSLevy/jsonrpc2/v13"

// VerifMethods exposes the API method table to the verification harness
// (injected at build time with -overlay; never part of a normal build).
func (s *APIServer) VerifMethods() jrpc.MethodMap { return s.jrpcMethods() }

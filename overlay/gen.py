#!/usr/bin/env python3
"""Emit a `go build -overlay` JSON that injects the build-tag-guarded hook files
of /verif/overlay/files/<relative path> into the repository tree (which stays untouched)."""
import json, os, sys
repo, ovl = sys.argv[1], sys.argv[2]
root = os.path.join(ovl, "files")
rep = {}
for d, _, fs in os.walk(root):
    for f in fs:
        src = os.path.join(d, f)
        rel = os.path.relpath(src, root)
        rep[os.path.join(repo, rel)] = src
print(json.dumps({"Replace": rep}))

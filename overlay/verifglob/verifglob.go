// Package verifglob is a registry of the addresses of package-level variables (filled by generated, build-tag-guarded
// files; see /verif/globgen). It exists only in verification builds (injected with go build -overlay).
package verifglob

// G is one package-level variable.
type G struct {
	Name string
	Ptr  interface{}
}

// All maps a package directory to its variables.
var All = map[string][]G{}

// Register records the variables of one package.
func Register(pkg string, gs []G) { All[pkg] = gs }

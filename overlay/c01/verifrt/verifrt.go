//go:build verif && go1.18

// Package verifrt is injected (go build -overlay) into the pegnetd module for the
// determinism check only: every `range` over a map in the consensus packages is
// rewritten to iterate verifrt.Order(site, m), whose order the model checker decides.
package verifrt

import (
	"fmt"
	"sort"
)

// Hook decides the iteration order at a dynamic execution of a rewritten range:
// it receives the site and the number of keys and returns a permutation of
// 0..n-1 over the keys in canonical (sorted) order, or nil for the identity.
var Hook func(site string, n int) []int

// Order returns the keys of m in the order the hook chooses.
func Order[K comparable, V any](site string, m map[K]V) []K {
	keys := make([]K, 0, len(m))
	for k := range m {
		keys = append(keys, k)
	}
	sort.Slice(keys, func(i, j int) bool { return fmt.Sprint(keys[i]) < fmt.Sprint(keys[j]) })
	if Hook == nil || len(keys) < 2 {
		return keys
	}
	p := Hook(site, len(keys))
	if p == nil {
		return keys
	}
	out := make([]K, len(keys))
	for i, pi := range p {
		out[i] = keys[pi]
	}
	return out
}

#!/bin/bash
# Run once after a fresh restore, offline: builds the model checker (fills GOCACHE incl. the cgo SQLite object)
# and generates the tiny LXR table the harness uses.
set -u
cd "$(dirname "$0")"
./check.sh build || exit 1
./bin/pvmc list >/dev/null || exit 1
./bin/pvmc warmup >/dev/null 2>&1
# warm the race-detector build cache (used by the C18 check)
(cd mc && GOFLAGS=-mod=mod GOPROXY=off GOSUMDB=off GOTOOLCHAIN=local CGO_ENABLED=1 go build -race -tags verif -overlay ../bin/pvmc.overlay.json -o ../bin/pvmc-race ./cmd/pvmc 2>/dev/null) || true
exit 0

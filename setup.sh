#!/bin/bash
# Run once after a fresh restore, offline: builds the model checker (fills GOCACHE incl. the cgo SQLite object)
# and generates the tiny LXR table the harness uses.
set -u
cd "$(dirname "$0")"
./check.sh build || exit 1
./bin/pvmc list >/dev/null || exit 1
./bin/pvmc warmup >/dev/null 2>&1
exit 0

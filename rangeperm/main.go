// rangeperm rewrites every `for ... range <map>` in the consensus packages of
// pegnetd into a loop over verifrt.Order(site, map), so that the model checker
// decides the iteration order. Output: rewritten copies + an overlay fragment.
// /repo is not touched.
package main

import (
	"bytes"
	"encoding/json"
	"flag"
	"fmt"
	"go/ast"
	"go/printer"
	"go/token"
	"go/types"
	"os"
	"path/filepath"
	"sort"
	"strings"

	"golang.org/x/tools/go/packages"
)

func main() {
	repo := flag.String("repo", "/repo", "repository root")
	out := flag.String("out", "", "output directory for rewritten files")
	flag.String("dir", "/verif/mc", "module directory from which the packages are resolved")
	flag.Parse()
	if *out == "" {
		fmt.Fprintln(os.Stderr, "usage: rangeperm -repo DIR -out DIR")
		os.Exit(2)
	}
	os.MkdirAll(*out, 0777)
	pkgs := []string{"github.com/pegnet/pegnetd/node", "github.com/pegnet/pegnetd/node/pegnet", "github.com/pegnet/pegnetd/node/conversions", "github.com/pegnet/pegnetd/fat/fat2"}
	dir := flag.Lookup("dir").Value.String()
	cfg := &packages.Config{Dir: dir, Mode: packages.NeedName | packages.NeedFiles | packages.NeedSyntax | packages.NeedTypes | packages.NeedTypesInfo | packages.NeedCompiledGoFiles, BuildFlags: []string{"-mod=mod"}}
	loaded, err := packages.Load(cfg, pkgs...)
	if err != nil {
		fmt.Fprintln(os.Stderr, "load:", err)
		os.Exit(2)
	}
	overlay := map[string]string{}
	type site struct {
		ID      string `json:"id"`
		Keys    string `json:"key_type"`
		Skipped string `json:"skipped,omitempty"`
	}
	var sites []site
	n := 0
	for _, p := range loaded {
		if len(p.Errors) > 0 {
			fmt.Fprintln(os.Stderr, "package errors:", p.PkgPath, p.Errors)
			os.Exit(2)
		}
		for fi, f := range p.Syntax {
			fname := p.CompiledGoFiles[fi]
			if strings.HasSuffix(fname, "_test.go") {
				continue
			}
			rel, _ := filepath.Rel(*repo, fname)
			changed := false
			labeled := map[*ast.RangeStmt]bool{}
			ast.Inspect(f, func(nd ast.Node) bool {
				if ls, ok := nd.(*ast.LabeledStmt); ok {
					if rs, ok := ls.Stmt.(*ast.RangeStmt); ok {
						labeled[rs] = true
					}
				}
				return true
			})
			var rewrite func(list []ast.Stmt) []ast.Stmt
			rewriteBlock := func(b *ast.BlockStmt) {
				if b != nil {
					b.List = rewrite(b.List)
				}
			}
			rewrite = func(list []ast.Stmt) []ast.Stmt {
				for i, st := range list {
					rs, ok := st.(*ast.RangeStmt)
					if !ok {
						continue
					}
					tv, ok := p.TypesInfo.Types[rs.X]
					if !ok {
						continue
					}
					mt, isMap := tv.Type.Underlying().(*types.Map)
					if !isMap {
						continue
					}
					pos := p.Fset.Position(rs.Pos())
					id := fmt.Sprintf("%s:%d", rel, pos.Line)
					if labeled[rs] {
						sites = append(sites, site{ID: id, Keys: mt.Key().String(), Skipped: "labeled statement"})
						continue
					}
					n++
					mv := ast.NewIdent(fmt.Sprintf("__vrm%d", n))
					kv := ast.NewIdent(fmt.Sprintf("__vrk%d", n))
					var pre []ast.Stmt
					bind := func(lhs ast.Expr, rhs ast.Expr) {
						if lhs == nil {
							return
						}
						if idn, ok := lhs.(*ast.Ident); ok && idn.Name == "_" {
							return
						}
						tok := rs.Tok
						if tok == token.ILLEGAL {
							tok = token.ASSIGN
						}
						pre = append(pre, &ast.AssignStmt{Lhs: []ast.Expr{lhs}, Tok: tok, Rhs: []ast.Expr{rhs}})
					}
					bind(rs.Key, kv)
					bind(rs.Value, &ast.IndexExpr{X: mv, Index: kv})
					body := &ast.BlockStmt{List: append(pre, rs.Body.List...)}
					loop := &ast.RangeStmt{Key: ast.NewIdent("_"), Value: kv, Tok: token.DEFINE,
						X: &ast.CallExpr{Fun: &ast.SelectorExpr{X: ast.NewIdent("verifrt"), Sel: ast.NewIdent("Order")},
							Args: []ast.Expr{&ast.BasicLit{Kind: token.STRING, Value: fmt.Sprintf("%q", id)}, mv}},
						Body: body}
					blk := &ast.BlockStmt{List: []ast.Stmt{
						&ast.AssignStmt{Lhs: []ast.Expr{mv}, Tok: token.DEFINE, Rhs: []ast.Expr{rs.X}},
						loop,
					}}
					list[i] = blk
					sites = append(sites, site{ID: id, Keys: mt.Key().String()})
					changed = true
				}
				return list
			}
			ast.Inspect(f, func(nd ast.Node) bool {
				switch x := nd.(type) {
				case *ast.BlockStmt:
					rewriteBlock(x)
				case *ast.CaseClause:
					x.Body = rewrite(x.Body)
				case *ast.CommClause:
					x.Body = rewrite(x.Body)
				}
				return true
			})
			if !changed {
				continue
			}
			// import
			f.Decls = append([]ast.Decl{&ast.GenDecl{Tok: token.IMPORT, Specs: []ast.Spec{&ast.ImportSpec{Path: &ast.BasicLit{Kind: token.STRING, Value: `"github.com/pegnet/pegnetd/verifrt"`}}}}}, f.Decls...)
			var buf bytes.Buffer
			buf.WriteString("//go:build go1.18\n\n")
			// comments are dropped on purpose: positions no longer match after the rewrite
			f.Comments = nil
			f.Doc = nil
			if err := printer.Fprint(&buf, token.NewFileSet(), f); err != nil {
				fmt.Fprintln(os.Stderr, "print:", err)
				os.Exit(2)
			}
			dst := filepath.Join(*out, strings.ReplaceAll(rel, "/", "__"))
			if err := os.WriteFile(dst, buf.Bytes(), 0666); err != nil {
				fmt.Fprintln(os.Stderr, err)
				os.Exit(2)
			}
			overlay[fname] = dst
		}
	}
	sort.Slice(sites, func(i, j int) bool { return sites[i].ID < sites[j].ID })
	rep, _ := json.MarshalIndent(map[string]interface{}{"overlay": overlay, "sites": sites}, "", " ")
	os.WriteFile(filepath.Join(*out, "rangeperm.json"), rep, 0666)
	fmt.Printf("rangeperm: %d map ranges rewritten in %d files\n", n, len(overlay))
}

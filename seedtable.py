#!/usr/bin/env python3
"""Prints the markdown table of independently seeded changes from seeded/*/meta.json (DESIGN 8.2)."""
import json,glob,re,os
rows=[]
for f in sorted(glob.glob('/verif/seeded/*/meta.json')):
    m=json.load(open(f))
    sid=m.get('id') or os.path.basename(os.path.dirname(f))
    ch=m.get('change','') or ''
    needs=m.get('needs_to_manifest','') or ''
    note=''
    mm=re.search(r'\((first run:|first version of the check|missed by)(.*)\)\s*$',ch)
    first='caught'
    if mm:
        note=(mm.group(1)+mm.group(2)).strip()
        ch=ch[:mm.start()].strip()
        if 'harness error' in note: first='**harness error**'
        elif 'missed' in note or 'first version' in note: first='**missed**'
    now='caught' if m.get('check_exit')==1 else 'NOT caught'
    rows.append((sid,ch,needs,first,note,now))
print('| seed | change | needs | first run | now |')
print('|---|---|---|---|---|')
for sid,ch,needs,first,note,now in rows:
    n=note.replace('first run: missed - ','').replace('first run: ','').replace('|','/')
    print(f"| {sid} | {ch.replace('|','/')} | {needs.replace('|','/')} | {first}{(': '+n) if n else ''} | {now} |")
missed=sum(1 for r in rows if 'missed' in r[3] or 'harness' in r[3])
print(f"\n{len(rows)} seeded changes; {missed} were missed (or left without a verdict) by the check as it stood when they arrived; all are caught now.")

#!/usr/bin/env python3
import json,sys
i,needs,what=sys.argv[1:4]
p='/verif/seeded/%s/meta.json'%i
d=json.load(open(p)); d['needs_to_manifest']=needs; d['change']=what; d['caught_by_check']= d['check_exit']==1
json.dump(d,open(p,'w'),indent=1); print(i, 'caught' if d['caught_by_check'] else 'MISSED')

#!/usr/bin/env python3
"""Fills the {Cxx} placeholders / refreshes the 'quick numbers' column of DESIGN.md section 5 from evidence/*.json."""
import json,re,sys
p='/verif/DESIGN.md'
s=open(p).read()
def num(pid):
    try:
        e=json.load(open(f'/verif/evidence/{pid}.json'))
    except Exception:
        return '{'+pid+'}'
    c=e['coverage']
    parts=[f"{c['evaluations']:,} evaluations", f"{c['distinct_nontrivial']:,} distinct"]
    if c.get('states'): parts.append(f"{c['states']:,} states / {c['transitions']:,} transitions")
    parts.append(f"{e['wall_s']:.0f} s ({e['tier']})")
    return ', '.join(parts)
lines=s.split('\n')
for i,l in enumerate(lines):
    m=re.match(r'^\| (C\d\d) \|',l)
    if m and l.count('|')>=6:
        cells=l.split('|')
        cells[-2]=' '+num(m.group(1))+' '
        lines[i]='|'.join(cells)
open(p,'w').write('\n'.join(lines))

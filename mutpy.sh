#!/bin/bash
# mutpy.sh <prop> <tier> <python-file>: run the python file (cwd = scratch worktree of /repo) to mutate, then run the check against it
set -u
P=$1; T=$2; PY=$(readlink -f $3)
D=/tmp/mut/$P.$$
git -C /repo worktree add --detach "$D" HEAD -f >/dev/null 2>&1
(cd "$D" && python3 "$PY" && git diff --stat | tail -1 && GOFLAGS=-mod=mod GOPROXY=off GOSUMDB=off GOTOOLCHAIN=local go build ./... 2>&1 | grep -v 'sqlite3\|pNew\|standin\|\^~\|declared')
PVMC_REPO="$D" /verif/check.sh "$P" "$T" 2>&1 | grep "signature\|^$P\|HARNESS\|KNOWN" | cut -c1-220
git -C /repo worktree remove --force "$D"
rm -rf /verif/bin/mc-alt-* /verif/bin/pvmc-alt-* /verif/replays
git -C /verif checkout -- evidence 2>/dev/null

#!/bin/bash
# seedrun.sh <seed-id> <prop> [tier] : apply a stored seeded change to a scratch worktree of /repo and run a check against it
set -u
ID=$1; P=$2; T=${3:-quick}
D=/tmp/sw/$ID.$$
git -C /repo worktree add --detach "$D" HEAD -f >/dev/null 2>&1
(cd "$D" && git apply /verif/seeded/$ID/patch.diff) || { echo "PATCH DID NOT APPLY"; git -C /repo worktree remove --force "$D"; exit 2; }
V=/tmp/vs.$$; rm -rf $V; mkdir -p $V
rsync -a --exclude .git --exclude bin --exclude seeded --exclude evidence --exclude replays --exclude 'quick_*' /verif/ $V/
mkdir -p $V/evidence
PVMC_REPO="$D" $V/check.sh "$P" "$T" 2>&1 | grep "signature\|^$P \|HARNESS\|^VIOLATION" | cut -c1-260 | head -${LINES_MAX:-14}
git -C /repo worktree remove --force "$D"
rm -rf $V

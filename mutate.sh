#!/bin/bash
# mutate.sh <prop> <tier> <sed-expression> <file>   : apply a one-line mutation to a scratch worktree of /repo and run the check against it
set -u
P=$1; T=$2; EXPR=$3; F=$4
D=/tmp/mut/$P.$$
git -C /repo worktree add --detach "$D" HEAD -f >/dev/null 2>&1
sed -i "$EXPR" "$D/$F"
(cd "$D" && git diff --stat | tail -1)
if [ -z "$(cd "$D" && git diff)" ]; then echo "MUTATION DID NOT APPLY"; fi
PVMC_REPO="$D" /verif/check.sh "$P" "$T" 2>&1 | grep "signature\|^$P\|HARNESS\|KNOWN" | cut -c1-220
git -C /repo worktree remove --force "$D"
rm -rf /verif/bin/mc-alt-* /verif/bin/pvmc-alt-* /verif/replays
git -C /verif checkout -- evidence 2>/dev/null

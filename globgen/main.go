// globgen lists the package-level variables of the pegnetd packages a running daemon consists of and emits, per package,
// a build-tag-guarded file that registers their addresses with the virtual package github.com/pegnet/pegnetd/verifglob.
// The harness uses the registry to make package-level state part of a node's state (snapshot / restore / restart = pristine).
package main

import (
	"encoding/json"
	"flag"
	"fmt"
	"go/ast"
	"go/parser"
	"go/token"
	"os"
	"path/filepath"
	"sort"
	"strings"
)

func main() {
	repo := flag.String("repo", "/repo", "repository root")
	out := flag.String("out", "", "output directory")
	glob := flag.String("verifglob", "", "path of verifglob.go")
	flag.Parse()
	overlay := map[string]string{filepath.Join(*repo, "verifglob", "verifglob.go"): *glob}
	for _, dir := range []string{"node", "node/pegnet", "node/conversions", "fat/fat2", "srv"} {
		fset := token.NewFileSet()
		files, _ := filepath.Glob(filepath.Join(*repo, dir, "*.go"))
		pkgName := ""
		var names []string
		for _, f := range files {
			if strings.HasSuffix(f, "_test.go") {
				continue
			}
			af, err := parser.ParseFile(fset, f, nil, parser.ParseComments)
			if err != nil {
				fmt.Fprintln(os.Stderr, "globgen:", err)
				os.Exit(2)
			}
			skip := false
			for _, cg := range af.Comments {
				if cg.Pos() < af.Package && (strings.Contains(cg.Text(), "+build ignore") || strings.Contains(cg.Text(), "go:build ignore")) {
					skip = true
				}
			}
			if skip {
				continue
			}
			pkgName = af.Name.Name
			for _, d := range af.Decls {
				gd, ok := d.(*ast.GenDecl)
				if !ok || gd.Tok != token.VAR {
					continue
				}
				for _, sp := range gd.Specs {
					for _, n := range sp.(*ast.ValueSpec).Names {
						if n.Name != "_" {
							names = append(names, n.Name)
						}
					}
				}
			}
		}
		if len(names) == 0 {
			continue
		}
		sort.Strings(names)
		var sb strings.Builder
		fmt.Fprintf(&sb, "//go:build verif\n\npackage %s\n\nimport \"github.com/pegnet/pegnetd/verifglob\"\n\nfunc init() {\n\tverifglob.Register(%q, []verifglob.G{\n", pkgName, dir)
		for _, n := range names {
			fmt.Fprintf(&sb, "\t\t{Name: %q, Ptr: &%s},\n", n, n)
		}
		sb.WriteString("\t})\n}\n")
		gen := filepath.Join(*out, dir, "zz_verif_globals.go")
		os.MkdirAll(filepath.Dir(gen), 0777)
		if err := os.WriteFile(gen, []byte(sb.String()), 0666); err != nil {
			fmt.Fprintln(os.Stderr, "globgen:", err)
			os.Exit(2)
		}
		overlay[filepath.Join(*repo, dir, "zz_verif_globals.go")] = gen
	}
	json.NewEncoder(os.Stdout).Encode(overlay)
}

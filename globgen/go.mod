module globgen

go 1.21

#!/bin/bash
# seedcheck.sh <id> <prop> <worktree> <demo go-test package> <demo -run regexp> [tier]
# Confirms a seeded change (builds; suite passes; demo fails with / passes without), stores it under /verif/seeded/<id>/, runs the check against it.
set -u
ID=$1; P=$2; W=$3; PKG=$4; RUN=$5; TIER=${6:-quick}
export GOFLAGS=-mod=mod GOPROXY=off GOSUMDB=off GOTOOLCHAIN=local
S=/verif/seeded/$ID; mkdir -p $S
cd $W || exit 2
git diff -- . ':!*_test.go' > $S/patch.diff
DEMOS=$(git status --short | grep '^??' | awk '{print $2}')
for f in $DEMOS; do mkdir -p $S/demo/$(dirname $f); cp -r $f $S/demo/$f; done
# the repository's suite is not safe to run several times at once (node/pegnet tests share a database name): serialise
exec 9>/tmp/seedsuite.lock; flock 9
echo "== build"; go build ./... 2>&1 | grep -v 'sqlite3\|pNew\|standin\|\^~\|declared' ; B=${PIPESTATUS[0]}
echo "== suite with change (demo excluded)"
mkdir -p /tmp/seedtmp.$$; for f in $DEMOS; do mkdir -p /tmp/seedtmp.$$/$(dirname $f); mv $f /tmp/seedtmp.$$/$f; done
go test -vet=off -count=1 ./... 2>&1 | grep -v 'sqlite3\|pNew\|standin\|\^~\|declared\|no test files' | tee $S/suite_with_change.txt | grep -v '^ok' | head -5
SUITE=$(grep -c "^FAIL" $S/suite_with_change.txt)
# the suite's own TestConversions_Convert_Random draws random inputs and fails now and then with "integer overflow" on the
# unchanged tree too: when it is the only failure, that package is run again (up to 3 times) and its verdict taken
if [ "$SUITE" != 0 ] && ! grep "^FAIL\|^--- FAIL" $S/suite_with_change.txt | grep -v "node/conversions\|TestConversions_Convert_Random\|^FAIL$" | grep -q .; then
  for k in 1 2 3; do
    if go test -vet=off -count=1 ./node/conversions > $S/suite_conversions_rerun.txt 2>&1; then
      echo "node/conversions re-run $k: ok (first run hit the random-input flake of TestConversions_Convert_Random)" >> $S/suite_with_change.txt
      SUITE=0; break
    fi
  done
fi
for f in $DEMOS; do mv /tmp/seedtmp.$$/$f $f; done; rm -rf /tmp/seedtmp.$$
echo "== demo with change (must fail)"
go test -vet=off -count=1 -run "$RUN" $PKG > $S/demo_with_change.txt 2>&1; DW=$?
tail -3 $S/demo_with_change.txt
echo "== demo without change (must pass)"
FILES=$(git diff --name-only -- . ':!*_test.go')
git diff -- $FILES > /tmp/seedpatch.$$; git checkout -- $FILES
go test -vet=off -count=1 -run "$RUN" $PKG > $S/demo_without_change.txt 2>&1; DO=$?
tail -2 $S/demo_without_change.txt
git apply /tmp/seedpatch.$$; rm -f /tmp/seedpatch.$$
echo "suite_fail_lines=$SUITE demo_with=$DW demo_without=$DO"
flock -u 9
echo "== my check against the change"
# the check runs from a private copy of /verif, so that evidence/ and replays/ of /verif itself are never touched
V=/tmp/vs.$$; rm -rf $V; mkdir -p $V
rsync -a --exclude .git --exclude bin --exclude seeded --exclude evidence --exclude replays --exclude 'quick_*' /verif/ $V/
mkdir -p $V/evidence
PVMC_REPO=$W $V/check.sh $P $TIER > $S/check_output.txt 2>&1; RC=$?
grep "signature\|^$P \|HARNESS\|KNOWN\|^VIOLATION" $S/check_output.txt | cut -c1-250 | head -12
echo "check_exit=$RC"
rm -rf $V
cat > $S/meta.json <<EOT
{"id":"$ID","property":"$P","worktree_base":"$(git -C $W rev-parse --short HEAD)","suite_fail_lines_with_change":$SUITE,"demo_exit_with_change":$DW,"demo_exit_without_change":$DO,"check_cmd":"PVMC_REPO=<worktree> ./check.sh $P $TIER","check_exit":$RC}
EOT

#!/bin/bash
# check.sh <property> <quick|thorough>   |   check.sh replay <file>   |   check.sh build
# Rebuilds the model checker against /repo's current working tree, then runs it.
# PVMC_REPO=<dir> points the build at a scratch copy of the repository instead
# (used only to demonstrate detection of property-breaking changes).
set -u
VERIF="$(cd "$(dirname "$0")" && pwd)"
export PVMC_VERIF="$VERIF"
export GOFLAGS=-mod=mod GOPROXY=off GOSUMDB=off GOTOOLCHAIN=local CGO_ENABLED=1
REPO="${PVMC_REPO:-/repo}"
SRC="$VERIF/mc"
BIN="$VERIF/bin/pvmc"
mkdir -p "$VERIF/bin"
if [ "$REPO" != "/repo" ]; then
  TAG="$(echo "$REPO" | cksum | cut -d' ' -f1)"
  SRC="$VERIF/bin/mc-alt-$TAG"
  BIN="$VERIF/bin/pvmc-alt-$TAG"
  rm -rf "$SRC"; mkdir -p "$SRC"
  (cd "$VERIF/mc" && tar cf - --exclude=go.sum .) | (cd "$SRC" && tar xf -)
  (cd "$SRC" && go mod edit -replace "github.com/pegnet/pegnetd=$REPO")
fi

build() {
  cd "$SRC" || exit 2
  cp "$REPO/go.sum" go.sum 2>/dev/null
  # hooks: build tag "verif" + overlay-injected files (see MANIFEST.hooks)
  OVL="$BIN.overlay.json"
  python3 "$VERIF/overlay/gen.py" "$REPO" "$VERIF/overlay" > "$OVL.base" || exit 2
  # package-level variables of the current tree: generated registry files (globgen) + the virtual package verifglob
  (cd "$VERIF/globgen" && go build -o "$VERIF/bin/globgen" .) || { echo "HARNESS-ERROR: globgen build failed" >&2; exit 2; }
  rm -rf "$BIN.globals"; "$VERIF/bin/globgen" -repo "$REPO" -out "$BIN.globals" -verifglob "$VERIF/overlay/verifglob/verifglob.go" > "$OVL.glob" || { echo "HARNESS-ERROR: globgen failed" >&2; exit 2; }
  python3 -c "import json,sys; a=json.load(open(sys.argv[1]))['Replace']; a.update(json.load(open(sys.argv[2]))); print(json.dumps({'Replace':a}))" "$OVL.base" "$OVL.glob" > "$OVL" || exit 2
  if ! go build -tags verif -overlay "$OVL" -o "$BIN" ./cmd/pvmc 2> "$BIN.build.log"; then
    grep -v 'sqlite3-binding\|return pNew\|Select standin\|\^~\|declared here\|^# github.com/mattn' "$BIN.build.log" >&2
    echo "HARNESS-ERROR: build failed" >&2
    exit 2
  fi
  return 0
}

case "${1:-}" in
  build) build; exit 0;;
  replay) build; exec "$BIN" replayfile "$2";;
  "") echo "usage: check.sh <Cxx> <quick|thorough> | replay <file> | build" >&2; exit 2;;
  C01)
    # determinism: separate binary in which every range over a map in the consensus packages is
    # rewritten (rangeperm, from the CURRENT tree) to an order the explorer controls
    build
    (cd "$VERIF/rangeperm" && go build -o "$VERIF/bin/rangeperm" .) || { echo "HARNESS-ERROR: rangeperm build failed" >&2; exit 2; }
    RP="$BIN.c01"; rm -rf "$RP"; mkdir -p "$RP"
    "$VERIF/bin/rangeperm" -repo "$REPO" -dir "$SRC" -out "$RP" >&2 || { echo "HARNESS-ERROR: rangeperm failed" >&2; exit 2; }
    python3 - "$BIN.overlay.json" "$RP/rangeperm.json" "$REPO" "$VERIF" > "$RP/overlay.json" <<'PYEOF'
import json,sys
base=json.load(open(sys.argv[1]))["Replace"]
rp=json.load(open(sys.argv[2]))["overlay"]
base.update(rp)
base[sys.argv[3]+"/verifrt/verifrt.go"]=sys.argv[4]+"/overlay/c01/verifrt/verifrt.go"
print(json.dumps({"Replace":base}))
PYEOF
    (cd "$SRC" && go build -tags "verif c01" -overlay "$RP/overlay.json" -o "$BIN-c01" ./cmd/pvmc 2> "$BIN-c01.build.log") || { grep -v 'sqlite3-binding\|return pNew\|Select standin\|\^~\|declared here\|^# github.com/mattn' "$BIN-c01.build.log" >&2; echo "HARNESS-ERROR: C01 build failed" >&2; exit 2; }
    PVMC_RANGEPERM_REPORT="$RP/rangeperm.json" exec "$BIN-c01" check "$1" "${2:-quick}";;
  C18)
    build
    # separate free-running pass under the race detector (same harness bodies, no cooperative scheduler)
    (cd "$SRC" && go build -race -tags verif -overlay "$BIN.overlay.json" -o "$BIN-race" ./cmd/pvmc 2> "$BIN-race.build.log") || echo "note: race-detector binary did not build; the race pass is skipped" >&2
    PVMC_RACE_BIN="$BIN-race" exec "$BIN" check "$1" "${2:-quick}";;
  *) build; exec "$BIN" check "$1" "${2:-quick}";;
esac

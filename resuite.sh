#!/bin/bash
# resuite.sh <seed-id> <worktree>: run the repository's suite again on a seeded worktree (demo files moved aside) and record the result;
# used when the first suite run collided with another suite run on the same machine (node/pegnet tests share a database name)
ID=$1; W=$2; S=/verif/seeded/$ID
export GOFLAGS=-mod=mod GOPROXY=off GOSUMDB=off GOTOOLCHAIN=local
cd $W || exit 2
DEMOS=$(git status --short | grep '^??' | awk '{print $2}')
mkdir -p /tmp/rs.$$; for f in $DEMOS; do mkdir -p /tmp/rs.$$/$(dirname $f); mv $f /tmp/rs.$$/$f; done
go test -vet=off -count=1 ./... 2>&1 | grep -v 'sqlite3\|pNew\|standin\|\^~\|declared\|no test files' > $S/suite_with_change_rerun.txt
for f in $DEMOS; do mv /tmp/rs.$$/$f $f; done; rm -rf /tmp/rs.$$
N=$(grep -c "^FAIL" $S/suite_with_change_rerun.txt)
if [ "$N" != 0 ] && ! grep "^FAIL\|^--- FAIL" $S/suite_with_change_rerun.txt | grep -v "node/conversions\|TestConversions_Convert_Random\|^FAIL$" | grep -q .; then
  for k in 1 2 3; do if go test -vet=off -count=1 ./node/conversions >> $S/suite_with_change_rerun.txt 2>&1; then N=0; break; fi; done
fi
python3 - "$S/meta.json" "$N" <<'PY'
import json,sys
p,n=sys.argv[1],int(sys.argv[2]); d=json.load(open(p)); d['suite_fail_lines_with_change']=n
d['suite_note']='the suite was run again on its own (suite_with_change_rerun.txt): the first run shared the machine with other suite runs and/or hit the random-input flake of TestConversions_Convert_Random'
json.dump(d,open(p,'w'),indent=1)
PY
echo "$ID suite rerun: FAIL lines=$N"

#!/usr/bin/env python3
"""Regenerates MANIFEST.json from the table below (kept in one place so that the
claimed set, levels and texts stay consistent)."""
import json

BASELINE_OFF = "cd /repo && go test -vet=off -count=1 -timeout 25m ./..."

CHECKS = {
 "C01": dict(level="model_checking", ref="5 C01", tech="source-rewriting of every range over a Go map (go/packages + go/types, applied with go build -overlay) so that a deviation-bounded DFS enumerates iteration orders and fetch completion orders on the real daemon; one-distinct-ledger invariant",
   text="rangeperm rewrites every `range` over a map in node, node/pegnet, node/conversions and fat/fat2 of the current tree (12 sites today) to iterate in an order chosen by the explorer; the fake Factom node imposes the completion order of concurrent entry fetches. Scenarios with exact ties (2-4 equal stakers below/above the cap, equal PEG requests below/above the bank as separate entries and in one batch, 27 identical OPR and SPR records, 3-4 concurrently fetched entries) are executed for every choice vector with at most 2 (thorough 3) deviations from the sorted order (all n! orders at maps with <= 4 keys; sorted/reversed/rotated/swapped at larger maps, as the single deviation): about 13,800 executions quick. Invariant: exactly one canonical ledger dump per scenario.",
   note="The grader libraries are not rewritten (they define grading). Sort instability is covered because Go's sort is a function of its input order. Sites the transformer cannot rewrite are listed in the evidence."),
 "C06": dict(level="model_checking", ref="5 C06", tech="explicit-state exploration of duplicate placements on the real daemon, differential oracle",
   text="Explicit-state exploration on the implementation itself: every placement of 1-2 (thorough: 3) extra copies of an entry over a 4 (5) block window, every graded/ungraded pattern, 4 entry kinds, 3 eras; each chain is replayed by the real DBlockSync and its ledger compared with the chain holding only first occurrences. States = distinct per-height ledger hashes, transitions = real block applications.",
   note="Trusts SQLite, the grader library and the fake Factom node; bounded to the stated window, copies and eras."),
 "C08": dict(level="exploration", ref="5 C08", tech="bounded-exhaustive enumeration of adversarial entries through the real block pipeline, packed per block and bisected (delta debugging) on failure",
   text="Every entry of a structured adversarial alphabet (ext-id count x length matrix, truncations, byte substitutions, field edges, extreme winning rates, duplicate placements, edge-semantics signed batches, rate-less snapshot heights) is applied by the real DBlockSync on funded ledgers in 6 (thorough: 12) eras; a block that cannot be applied is bisected down to the minimal entry set and reported with the daemon's own error text.",
   note="Alphabet-bounded: says nothing about byte strings outside the enumerated families. A wedge is 3 identical consecutive failures with a healthy fake node. Known open defects are listed in known_findings.json and reported as KNOWN-FINDING."),
 "C02": dict(level="fault_enumeration", ref="5 C02", tech="exhaustive crash-point enumeration: file image before every driver-level SQL operation of every block, recovery by a fresh node",
   text="While the real DBlockSync applies two coverage chains (pre-2.0 timeline, 2.x timeline through two snapshots and every one-time adjustment), the SQL driver wrapper copies database+journal before every Begin/Prepare/Exec/Query/Commit and after every Commit (about 20,000 crash points). Every image is recovered by SQLite and must equal the uninterrupted ledger at its own recorded height, with contiguous version rows; a stride of images (thorough: all) is resumed by a fresh node to the tip and must equal the uninterrupted tip ledger. Thorough repeats everything in WAL mode.",
   note="SIGKILL model: page cache survives; power loss / torn sectors out of scope. Trusts SQLite's atomic commit and hot-journal recovery."),
 "C10": dict(level="fault_enumeration", ref="5 C10", tech="exhaustive single-fault enumeration over every upstream request and every driver-level SQL operation of every block, differential against the fault-free run",
   text="For every block of the coverage chains, every upstream request (by method/key/occurrence) and every SQL operation is failed once (quick: one error kind per class and two occurrences per call site; thorough: all kinds, all occurrences, and all pairs on small blocks). The real retry loop must bring the same process (or a restarted one after a death) to exactly the fault-free ledger at every committed height and to the fault-free rolling-average cache.",
   note="Runs start from the uninterrupted run's state at h-1 (database copy + cache), validated against the uninterrupted run by a fault-free probe at every height. Known open call sites are in known_findings.json."),
 "C09": dict(level="model_checking", ref="5 C09", tech="explicit-state breadth-first search over block/restart events on the real node with state cloning (database file + cache)",
   text="BFS over all event sequences {block G1, block G2, block U, restart} up to depth 6 (thorough 8; AveragePeriod 4, thorough also 6) with PIP-10 active and a conversion executing in every graded block; states (chain prefix, ledger hash, cache) are deduplicated; invariant: one ledger per chain prefix whatever the restart placement.",
   note="State = database + the three exported cache fields (validated by C10's checkpoint probe). Bounded depth and two averaging periods; the known window defect is listed in known_findings.json."),
 "C19": dict(level="model_checking", ref="5 C19", tech="explicit-state breadth-first search over upgrade/downgrade session histories with real block commits, compared with a list model at every start-up",
   text="Per fork placement (all placements of two forks over heights 1..6; thorough adds three forks and height 7) a BFS over sessions (build version in {legacy,0,1,2,3} x blocks in {0,1,2}) of up to 3 (4) sessions; every start-up is the real node.NewPegnetd on a database produced by real DBlockSync commits and is compared with the model verdict.",
   note="A build's fork table is modelled as the forks whose minimum version it satisfies; legacy builds leave no version rows."),
 "C20": dict(level="exploration", ref="5 C20", tech="bounded-exhaustive enumeration of byte strings (grammar-bounded JSON, all single-byte edits of canonical batches, all short decimal strings) against an independent recogniser / exact rational arithmetic",
   text="About 28,000 batch contents (grammar-bounded member sequences with duplicate, case-variant and unknown keys at every level, value alphabets at the int64/uint64 edges, whitespace at every gap, every single-byte insertion/deletion/substitution of canonical batches; thorough: more batches and two-transaction sequences) go through the real fat2.NewTransactionBatch with a valid signature; every accepted string must be accepted by an independent strict recogniser and survive Marshal/decode. Every decimal string of length <= 6 (thorough 7) over `0159.-+e ` plus boundary whole parts x all fractions of <= 9 digits over {0,1,9} goes through cmd.FactoidToFactoshi and is compared with exact big-integer arithmetic.",
   note="Alphabet- and length-bounded. JSON null as an amount and case-folded keys are not counted as non-canonical (the property's list does not name them)."),
 "C05": dict(level="exploration", ref="5 C05", tech="exhaustive single-bit and structural mutation of valid signed entries through the real block pipeline, differential (group testing + bisection)",
   text="For RCD-1 and RCD-e keys, transfers and held conversions, RCD-e active and not yet active, 2.0.5 and bank-pooled ledgers: every single-bit flip of every external id and of the content (quick: all ext-id bits, the first and last 32 content bytes and every 4th byte between; thorough: every bit), every structural mutant and the entry written to the other chains are applied by the real DBlockSync in the block after the valid entry; the ledger must equal that of the chain without mutants, differing packs are bisected to single mutants. Salt-window edges are checked one chain each.",
   note="Trusts the signature primitives. The RCD-e recovery-byte malleability is an open known finding."),
 "C03": dict(level="exploration", ref="5 C03", tech="bounded-exhaustive enumeration of all batches up to length 3 over a transaction alphabet through the real pipeline, compared with a sequential reference ledger",
   text="An address with exactly 10 pUSD, 4 pEUR, 6 PEG (x1 and x1e8) signs every batch of length 1..2 (two era/scale combinations and thorough: 3) over an 11-letter alphabet (amounts at balance-1/balance/balance+1, two outputs, self, burn address, conversions both ways, PEG request, spends that only an earlier in-batch credit can fund); each runs through the real DBlockSync in 5 eras. Final balances of all addresses must equal the chain without the entry or the full sequential effect, and 'applied' is only admissible when the running balance never goes negative.",
   note="Reference amounts from recorded rates; bank-era batches mixing a PEG request with another conversion are an open known finding."),
 "C07": dict(level="exploration", ref="5 C07", tech="full product enumeration of Convert arguments at the integer edges against exact arithmetic, plus exhaustive graded/ungraded block patterns through the real pipeline",
   text="(a) about 120,000 argument tuples of conversions.Convert (amounts and four rates at the int64/uint64 edges, before/at/after the averaging activation) against floor(in*src/dst) in big-integer arithmetic with the min/max rule, overflow => error, and the value-non-increase bound. (b) a conversion submitted in a graded or ungraded block followed by every pattern over {G(r1),G(r2),U}^3 (thorough ^4) for up to 6 asset pairs in 7 eras: executes in the first later graded block only, at that block's recorded rates (any admissible averaging window), balances move by exactly the recorded amount.",
   note="Rates are read as recorded (C12 checks them); averaging-window ambiguity is C09's."),
 "C13": dict(level="exploration", ref="5 C13", tech="exhaustive enumeration of all 62x61 asset pairs at every activation boundary through the real pipeline against a rule model",
   text="One address that acquired all 62 assets through protocol events along a compressed mainnet timeline submits one conversion per ordered pair (3782 entries per block); the next graded block executes them just before / at / after the one-way-pFCT, 2.0, one-way-small-assets and averaging activations, and under zeroed-spot and unavailable-average patterns (15 era points, thorough 19). Per entry status and amount and the aggregate balances are compared with a model written from the property's list.",
   note="PEG destinations in the bank eras are left to C16."),
 "C16": dict(level="exploration", ref="5 C16", tech="bounded-exhaustive enumeration of PEG-request multisets and placements through the real pipeline against the proportional-share / refund bounds",
   text="Every multiset of up to 3 (thorough 4) PEG requests over 7 sizes around the bank and two source assets, as separate entries / one batch / spread over an ungraded block, in the per-height era, the pooled era and across the fork between them (about 2,000 chains): bank bound, full or proportional yield with dust, refund formula and value bound, balance deltas and the bank table row.",
   note="Rates as recorded; one requesting address."),
 "C11": dict(level="exploration", ref="5 C11", tech="bounded-exhaustive enumeration of OPR/SPR record sets and factoid transactions through the real pipeline, compared with the grader libraries' verdict on the eligible records",
   text="Per grading era (OPR v1-v5, SPR S1-S3): record sets of {0, W-1, W, W+1, 51} valid records with noise, mixed with every kind of invalid record, consecutive blocks with ungraded and winner-less blocks between, SPR sets whose declared staker is a top-100 holder / holder #101 / a non-holder signed by that holder's key or another key, duplicate payout addresses, a pre-2.0.2 band conflict, and factoid blocks over the burn-shape alphabet: every address's PEG / pFCT delta must equal the rewards the grader library assigns to the eligible records plus valid burns.",
   note="The grader libraries are the definition of winners and rewards. Staker/signature binding and the band-conflict skip are open known findings."),
 "C12": dict(level="exploration", ref="5 C12", tech="bounded-exhaustive enumeration of winner combinations and band relations per era through the real pipeline against a reference band filter; immutability invariant on every transition",
   text="In 8 eras: OPR winners absent/too few/present x SPR winners absent/too few/ineligible/present, every in-band relation spread over the assets, one block per (representative asset, edge-1/edge/edge+1/edge+2/far outside on both sides), PEG price zero / equation (from an empty ledger and with supply) / floating; recorded rows must equal the reference band filter (rows within one unit of an exact edge accept either verdict), a winner-less block records nothing and executes no waiting conversion, and after every committed block earlier heights' rows are unchanged.",
   note="Before 2.0.2 an out-of-band pair is treated as a conflict for which 'no rates' is admissible."),
 "C14": dict(level="exploration", ref="5 C14", tech="bounded-exhaustive enumeration of holdings and movements across two real snapshots through the real pipeline, checked against the min-stake proportionality and cap bounds over all addresses",
   text="Chains through snapshot heights 432 and 576 in four 2.x eras: a probe holder over every combination of holdings {0,10,1000 pUSD} x {0,5 pEUR} x {0,50 PEG} and movement {none, receive, send all, send part, convert, first funded after the first snapshot}, two fixed holders, ties, total stake far below / above the cap through the rates quoted at the snapshot, graded and ungraded snapshot block, an asset zeroed by the band, a transfer inside the snapshot block. For ALL addresses: stake from min(balance at 431, balance at 575); payout 0 without stake or when absent from a snapshot, else within n units of the proportional share; total <= cap and == cap when the stake exceeds it; no staking movement at 575/577.",
   note="Whole-unit balances make the valuation exact; a harness self-check verifies that holders really hold the specified amounts at the first snapshot."),
 "C15": dict(level="exploration", ref="5 C15", tech="enumeration of activation alignments (0..143 for developer rewards, 0..61 for the first zeroing) over 450-900 block chains with a per-block tracker of the special addresses against the issuance schedule",
   text="After every committed block the balances of the 14 developer addresses, both burn addresses and the mint address are read; per-block deltas must equal the schedule (pct% of 2,000 PEG, x144 from 2.0.2, at every multiple of 144 from the activation; zeroings, mint and mint burn exactly at their heights for exactly the balance held / the listed amounts; nothing at any other height). Quick covers 54 of the 144 developer alignments, 80 zeroing configurations and 8 late-adjustment chains; thorough covers all.",
   note="The old burn address has the all-zero RCD hash: transfers to it are destroyed by this tree even before 2.0.2, so it can only hold mining rewards. Alignment 0 of the first zeroing cannot be synced (reported as inconclusive here; liveness is C08's)."),
 "C04": dict(level="exploration", ref="5 C04", tech="per-address, per-asset, per-block accounting of whole chains against the sum of each block's protocol events recomputed from the chain content",
   text="On both coverage chains and 114 edge-semantics batch chains, after every committed block the delta of every address in every asset must equal the sum of that block's events: grader-library rewards, valid burns, the inputs/outputs/conversion amounts of the entries whose execution height is this block (amounts recomputed from the entry content and recorded rates), PEG-request yields and refunds, and the one-time adjustments; burn-address outputs destroy value. About 1,100 (chain, block) evaluations.",
   note="Execution heights are read from the recorded status (tied to effects by C17); PEG at snapshot heights belongs to C14/C15. The bank-era double credit is an open known finding."),
 "C17": dict(level="exploration", ref="5 C17", tech="exhaustive walk of the real API handlers (status, every page of get-transactions by hash / address / height in both orders, balances) over synced chains, with a history-replay oracle",
   text="After syncing the coverage chains, a paging chain (blocks with 50 coinbases + 12-transaction batches, an address with 130 actions, 60 stakers), a zeroing chain with coinciding mock transaction ids and edge-semantics batch chains, every key is walked through the real handlers (about 28,000 key walks): each recorded action exactly once per hash, address and height in both orders with a consistent count; status 0 only while a graded block can still come; replaying the executed actions returned by the API plus the exempt adjustments reproduces every balance returned by get-pegnet-balances.",
   note="The handlers are reached through a build-tag-guarded exporter injected with -overlay."),
 "C18": dict(level="model_checking", ref="5 C18", tech="stateless model checking of the real goroutines under a cooperative scheduler hooked at every database operation (preemption-bounded DFS), linearizability checked with porcupine; separate free-running race-detector pass",
   text="The real DBlockSync (two blocks, conversions priced with averages) runs against real API handler invocations (11 read methods; pairs in thorough) under a hand-written cooperative scheduler whose scheduling points are every driver-level database operation and handler entry/exit; all schedules with <= 2 preemptions (thorough 3, and one configuration with every S point visible) are enumerated by replay-prefix DFS (about 1,750 schedules quick). Per schedule: final ledger == ledger without API load, nobody dies, blocks or deadlocks, and the commit/read history is linearizable (porcupine) against per-height reference responses computed by a fresh node; a committed block may become visible late but never early. A separate free-running -race pass of the same bodies reports races; only races on Go maps inside pegnetd count as violations.",
   note="S's in-transaction statements are not branch points (SQLite isolation); finer-than-statement interleavings are only sampled by the race pass."),
}

NOT_YET = {}

ALL = ["C%02d" % i for i in range(1, 21)]

def main():
    checks = []
    for pid in ALL:
        if pid not in CHECKS:
            continue
        c = CHECKS[pid]
        checks.append({
            "property_id": pid,
            "quick_cmd": "./check.sh %s quick" % pid,
            "thorough_cmd": "./check.sh %s thorough" % pid,
            "evidence_file": "/verif/evidence/%s.json" % pid,
            "replay_cmd_template": "./check.sh replay {path}",
            "engine": "pvmc",
            "level_claimed": {"category": c["level"], "text": c["text"], "design_ref": "DESIGN.md section " + c["ref"]},
            "level_note": c["note"],
            "technique": c["tech"],
        })
    na = []
    for pid in ALL:
        if pid in CHECKS:
            continue
        na.append({"property_id": pid, "reason": NOT_YET.get(pid, "check under construction in this round: not claimed until it passes on the unchanged tree and has caught a seeded change")})
    m = {
        "version": 1,
        "setup_cmd": "./setup.sh",
        "hooks": {
            "guard": "verif",
            "enable": "go build -tags verif -overlay <generated by overlay/gen.py>: hook files live in /verif/overlay/files and are injected at build time; /repo is not modified",
            "baseline_off_cmd": BASELINE_OFF,
            "source_commits": [],
            "add_only": True,
        },
        "engines": [{"name": "pvmc", "path": "/verif/mc", "serves_properties": sorted(CHECKS.keys()),
                     "kind_free_text": "hand-written explicit-state / stateless model checker in Go that drives the real pegnetd node (node.NewPegnetd + DBlockSync) against an in-process fake Factom node and a wrapping database/sql driver"}],
        "checks": checks,
        "not_applicable": na,
        "notes": "All checks rebuild bin/pvmc from /repo's working tree on every invocation (check.sh). Known, recorded defects are listed in known_findings.json.",
    }
    json.dump(m, open("MANIFEST.json", "w"), indent=1)
    print("claimed:", sorted(CHECKS.keys()))

main()

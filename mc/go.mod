module pegverif

go 1.13

require (
	github.com/AdamSLevy/jsonrpc2/v13 v13.0.1
	github.com/Factom-Asset-Tokens/factom v0.0.0-20191114224337-71de98ff5b3e
	github.com/anishathalye/porcupine v1.3.0
	github.com/mattn/go-sqlite3 v1.11.0
	github.com/pegnet/pegnet v0.5.1-0.20210225213341-a476b4b2cc0f
	github.com/pegnet/pegnetd v0.0.0
	github.com/sirupsen/logrus v1.4.2
	github.com/spf13/viper v1.4.0
)

replace github.com/pegnet/pegnetd => /repo

replace github.com/Factom-Asset-Tokens/factom => github.com/Emyrk/factom v0.0.0-20200113153851-17d98c31e1bd

replace crawshaw.io/sqlite => github.com/AdamSLevy/sqlite v0.1.3-0.20191014215059-b98bb18889de

replace github.com/spf13/pflag v1.0.3 => github.com/AdamSLevy/pflag v1.0.4

package fake

import (
	"bytes"
	"encoding/hex"
	"encoding/json"
	"errors"
	"fmt"
	"io"
	"io/ioutil"
	"net/http"
	"sync"

	"github.com/Factom-Asset-Tokens/factom"
)

// Req describes one upstream request seen by the fake node.
type Req struct {
	Seq    int
	Method string // heights | dblock-by-height | fblock-by-height | raw-data
	Key    string // decimal height or hex hash
	Kind   string // heights | dblock | fblock | eblock | entry | unknown
	Height uint32 // for dblock / fblock
}

func (r Req) ID() string { return r.Method + ":" + r.Key }

// FaultKind enumerates how a request can be failed.
type FaultKind int

const (
	NoFault       FaultKind = iota
	FaultTransport          // RoundTrip returns an error
	FaultHTTP500            // 500 Internal Server Error
	FaultRPCError           // JSON-RPC error object
	FaultTruncated          // hex payload cut in half
	FaultGarbage            // body is not JSON
	FaultSubstituted        // raw-data answers with ANOTHER entry of the same chain: well-formed, wrong hash
	nFaultKinds
)

func (k FaultKind) String() string {
	return [...]string{"none", "transport", "http500", "rpcerror", "truncated", "garbage", "substituted"}[k]
}

var AllFaultKinds = []FaultKind{FaultTransport, FaultHTTP500, FaultRPCError, FaultTruncated, FaultGarbage, FaultSubstituted}

// Node is the http.RoundTripper.
type Node struct {
	Chain *Chain

	mu     sync.Mutex
	hookMu sync.Mutex
	// TipFn returns the height the node reports; default = chain tip.
	TipFn func() uint32
	// OnRequest is called (outside the lock) for every request before it is answered.
	// It may block (scheduling) and may return a fault to inject.
	OnRequest func(r Req) FaultKind
	// Gate, if set, is called for every request before OnRequest, WITHOUT any lock held: it may block
	// to impose a completion order on concurrent requests.
	Gate func(r Req)
	seq       int
	Log       []Req
	KeepLog   bool
	// Counts of dblock-by-height requests per height.
	DBlockReqs map[uint32]int
}

// SetOnRequest replaces the request hook (safe against concurrent requests).
func (n *Node) SetOnRequest(f func(r Req) FaultKind) {
	n.mu.Lock()
	n.OnRequest = f
	n.mu.Unlock()
}

// SetTipFn replaces the tip function (safe against concurrent requests).
func (n *Node) SetTipFn(f func() uint32) {
	n.mu.Lock()
	n.TipFn = f
	n.mu.Unlock()
}

func NewNode(c *Chain) *Node {
	return &Node{Chain: c, DBlockReqs: map[uint32]int{}}
}

type rpcReq struct {
	ID     json.RawMessage `json:"id"`
	Method string          `json:"method"`
	Params json.RawMessage `json:"params"`
}

func (n *Node) classify(rq rpcReq) (Req, error) {
	r := Req{Method: rq.Method}
	switch rq.Method {
	case "heights":
		r.Kind = "heights"
	case "dblock-by-height", "fblock-by-height":
		var p struct {
			Height uint32 `json:"height"`
		}
		if err := json.Unmarshal(rq.Params, &p); err != nil {
			return r, err
		}
		r.Height = p.Height
		r.Key = fmt.Sprint(p.Height)
		if rq.Method[0] == 'd' {
			r.Kind = "dblock"
		} else {
			r.Kind = "fblock"
		}
	case "raw-data":
		var p struct {
			Hash string `json:"hash"`
		}
		if err := json.Unmarshal(rq.Params, &p); err != nil {
			return r, err
		}
		r.Key = p.Hash
		r.Kind = "raw"
	default:
		r.Kind = "unknown"
	}
	return r, nil
}

func httpResp(req *http.Request, code int, body []byte) *http.Response {
	return &http.Response{
		StatusCode: code, Status: fmt.Sprintf("%d %s", code, http.StatusText(code)),
		Proto: "HTTP/1.1", ProtoMajor: 1, ProtoMinor: 1,
		Header:        http.Header{"Content-Type": []string{"application/json"}},
		Body:          ioutil.NopCloser(bytes.NewReader(body)),
		ContentLength: int64(len(body)), Request: req,
	}
}

func (n *Node) RoundTrip(req *http.Request) (*http.Response, error) {
	if err := req.Context().Err(); err != nil {
		return nil, err
	}
	body, err := io.ReadAll(req.Body)
	req.Body.Close()
	if err != nil {
		return nil, err
	}
	var rq rpcReq
	if err := json.Unmarshal(body, &rq); err != nil {
		return httpResp(req, 400, []byte(`{"jsonrpc":"2.0","id":null,"error":{"code":-32700,"message":"Parse error"}}`)), nil
	}
	r, err := n.classify(rq)
	if err != nil {
		return httpResp(req, 400, []byte(fmt.Sprintf(`{"jsonrpc":"2.0","id":%s,"error":{"code":-32602,"message":"Invalid params"}}`, rq.ID))), nil
	}

	n.mu.Lock()
	n.seq++
	r.Seq = n.seq
	if r.Kind == "dblock" {
		n.DBlockReqs[r.Height]++
	}
	if r.Kind == "raw" {
		// refine kind
		var h factom.Bytes32
		if b, e := hex.DecodeString(r.Key); e == nil && len(b) == 32 {
			copy(h[:], b)
			n.Chain.mu.Lock()
			raw := n.Chain.raw[h]
			n.Chain.mu.Unlock()
			if raw != nil {
				if len(raw) >= 32 && (bytes.Equal(raw[:32], n.Chain.IDs.OPR[:]) || bytes.Equal(raw[:32], n.Chain.IDs.SPR[:]) || bytes.Equal(raw[:32], n.Chain.IDs.TX[:])) {
					r.Kind = "eblock"
				} else {
					r.Kind = "entry"
				}
			}
		}
	}
	if n.KeepLog {
		n.Log = append(n.Log, r)
	}
	hook := n.OnRequest
	gate := n.Gate
	n.mu.Unlock()
	if gate != nil {
		gate(r)
	}

	fault := NoFault
	if hook != nil {
		// hooks are serialised: multiFetch issues entry requests from 8 goroutines
		n.hookMu.Lock()
		fault = hook(r)
		n.hookMu.Unlock()
	}
	if err := req.Context().Err(); err != nil {
		return nil, err
	}
	switch fault {
	case FaultTransport:
		return nil, errors.New("fake: connection refused (injected)")
	case FaultHTTP500:
		return httpResp(req, 500, []byte("internal error (injected)")), nil
	case FaultRPCError:
		return httpResp(req, 200, []byte(fmt.Sprintf(`{"jsonrpc":"2.0","id":%s,"error":{"code":-32603,"message":"Internal error","data":"injected"}}`, rq.ID))), nil
	case FaultGarbage:
		return httpResp(req, 200, []byte("<html>bad gateway</html>")), nil
	}

	if fault == FaultSubstituted {
		if sub, ok := n.substitute(r); ok {
			return httpResp(req, 200, []byte(fmt.Sprintf(`{"jsonrpc":"2.0","id":%s,"result":{"data":"%s"}}`, rq.ID, hex.EncodeToString(sub)))), nil
		}
		fault = FaultTruncated // nothing to substitute with: degrade to a truncated answer
	}
	result, rerr := n.answer(r, fault == FaultTruncated)
	if rerr != nil {
		return httpResp(req, 200, []byte(fmt.Sprintf(`{"jsonrpc":"2.0","id":%s,"error":{"code":-32008,"message":"Block not found","data":%q}}`, rq.ID, rerr.Error()))), nil
	}
	return httpResp(req, 200, []byte(fmt.Sprintf(`{"jsonrpc":"2.0","id":%s,"result":%s}`, rq.ID, result))), nil
}

// substitute returns the raw bytes of another entry of the same chain (the one with the smallest hash).
func (n *Node) substitute(r Req) ([]byte, bool) {
	if r.Method != "raw-data" {
		return nil, false
	}
	b, err := hex.DecodeString(r.Key)
	if err != nil || len(b) != 32 {
		return nil, false
	}
	var h factom.Bytes32
	copy(h[:], b)
	c := n.Chain
	c.mu.Lock()
	defer c.mu.Unlock()
	own := c.raw[h]
	if len(own) < 33 || own[0] != 0 {
		return nil, false // not an entry (entries start with version byte 0 followed by the chain id)
	}
	var best factom.Bytes32
	var bestRaw []byte
	for k, raw := range c.raw {
		if k == h || len(raw) < 33 || raw[0] != 0 || !bytes.Equal(raw[1:33], own[1:33]) {
			continue
		}
		if bestRaw == nil || bytes.Compare(k[:], best[:]) < 0 {
			best, bestRaw = k, raw
		}
	}
	return bestRaw, bestRaw != nil
}

func hx(b []byte, trunc bool) string {
	s := hex.EncodeToString(b)
	if trunc {
		s = s[:(len(s)/4)*2]
	}
	return s
}

func (n *Node) tip() uint32 {
	n.mu.Lock()
	f := n.TipFn
	n.mu.Unlock()
	if f != nil {
		return f()
	}
	return n.Chain.Tip()
}

func (n *Node) answer(r Req, trunc bool) (string, error) {
	c := n.Chain
	switch r.Method {
	case "heights":
		t := n.tip()
		return fmt.Sprintf(`{"directoryblockheight":%d,"leaderheight":%d,"entryblockheight":%d,"entryheight":%d}`, t, t+1, t, t), nil
	case "dblock-by-height":
		if r.Height > n.tip() {
			return "", fmt.Errorf("height %d above tip", r.Height)
		}
		c.mu.Lock()
		bb, err := c.ensure(r.Height)
		c.mu.Unlock()
		if err != nil {
			return "", err
		}
		return fmt.Sprintf(`{"dblock":{"keymr":"%s"},"rawdata":"%s"}`, hex.EncodeToString(bb.keyMR[:]), hx(bb.dblockRaw, trunc)), nil
	case "fblock-by-height":
		if r.Height > n.tip() {
			return "", fmt.Errorf("height %d above tip", r.Height)
		}
		c.mu.Lock()
		bb, err := c.ensure(r.Height)
		c.mu.Unlock()
		if err != nil {
			return "", err
		}
		return fmt.Sprintf(`{"rawdata":"%s"}`, hx(bb.fblockRaw, trunc)), nil
	case "raw-data":
		b, err := hex.DecodeString(r.Key)
		if err != nil || len(b) != 32 {
			return "", fmt.Errorf("bad hash")
		}
		var h factom.Bytes32
		copy(h[:], b)
		c.mu.Lock()
		raw := c.raw[h]
		c.mu.Unlock()
		if raw == nil {
			return "", fmt.Errorf("hash not found")
		}
		return fmt.Sprintf(`{"data":"%s"}`, hx(raw, trunc)), nil
	}
	return "", fmt.Errorf("method not found")
}

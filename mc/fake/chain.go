// Package fake is an in-memory Factom chain plus an http.RoundTripper that answers
// the four factomd API methods pegnetd uses with *binary* blocks whose Merkle roots
// the real client library re-verifies.
package fake

import (
	"bytes"
	"crypto/sha256"
	"encoding/binary"
	"fmt"
	"sort"
	"sync"

	"github.com/Factom-Asset-Tokens/factom"
	"github.com/Factom-Asset-Tokens/factom/varintf"
)

// Entry is one chain entry (chain id is decided by which list it is put in).
type Entry struct {
	ExtIDs  [][]byte
	Content []byte
	// Minute is the minute marker (1..10) under which the entry sits. 0 means 1.
	// Entries of one chain must be in non-decreasing Minute order.
	Minute int
}

// FTx is a factoid transaction (not the coinbase, which is always generated).
type FTx struct {
	Inputs  []FIO
	Outputs []FIO
	ECOuts  []FIO
	// SaltMs distinguishes otherwise equal transactions.
	SaltMs int64
	// Seeds[i] is the ed25519 seed signing input i (only its public key matters to pegnetd).
	Seeds [][32]byte
}

// FIO is a factoid input or output.
type FIO struct {
	Amount  uint64
	Address [32]byte
}

// Block is the content of one directory block, as far as pegnetd is concerned.
type Block struct {
	OPR, SPR, TX []Entry
	Factoid      []FTx
}

// Chain ids (copied at construction so tests may use other ids).
type ChainIDs struct {
	OPR, SPR, TX factom.Bytes32
}

// Chain is an append-only fake Factom chain. Height of Blocks[i] is Base+1+i.
type Chain struct {
	IDs    ChainIDs
	Base   uint32
	T0Min  uint32 // dblock timestamp (in minutes since epoch) of height Base
	Blocks []*Block

	mu    sync.Mutex
	built []*builtBlock // built[i] for Blocks[i]
	raw   map[factom.Bytes32][]byte
	seq   map[factom.Bytes32]*chainHead
}

type chainHead struct {
	seq      uint32
	keyMR    factom.Bytes32
	fullHash factom.Bytes32
}

type builtBlock struct {
	dblockRaw []byte
	keyMR     factom.Bytes32
	fullHash  factom.Bytes32
	fblockRaw []byte
	// entry hashes per chain, in order
	OPRHashes, SPRHashes, TXHashes []factom.Bytes32
	TxIDs                          []factom.Bytes32
	eblockKeyMR                    map[factom.Bytes32]factom.Bytes32
}

func NewChain(ids ChainIDs, base uint32, t0min uint32) *Chain {
	return &Chain{IDs: ids, Base: base, T0Min: t0min,
		raw: map[factom.Bytes32][]byte{}, seq: map[factom.Bytes32]*chainHead{}}
}

// Clone returns an independent chain with the same blocks (block pointers shared: blocks are immutable once appended).
func (c *Chain) Clone() *Chain {
	n := NewChain(c.IDs, c.Base, c.T0Min)
	n.Blocks = append(n.Blocks, c.Blocks...)
	return n
}

// Prefix returns a chain holding the first n blocks.
func (c *Chain) Prefix(n int) *Chain {
	p := NewChain(c.IDs, c.Base, c.T0Min)
	p.Blocks = append(p.Blocks, c.Blocks[:n]...)
	return p
}

func (c *Chain) Append(b *Block) uint32 {
	c.mu.Lock()
	defer c.mu.Unlock()
	c.Blocks = append(c.Blocks, b)
	return c.Base + uint32(len(c.Blocks))
}

func (c *Chain) Tip() uint32 { return c.Base + uint32(len(c.Blocks)) }

func (c *Chain) Block(h uint32) *Block {
	if h <= c.Base || h > c.Tip() {
		return nil
	}
	return c.Blocks[h-c.Base-1]
}

// TimestampMin returns the dblock timestamp of height h in minutes.
func (c *Chain) TimestampMin(h uint32) uint32 { return c.T0Min + 10*(h-c.Base) }

// TimestampUnix returns the dblock timestamp of height h in seconds.
func (c *Chain) TimestampUnix(h uint32) int64 { return int64(c.TimestampMin(h)) * 60 }

// EntryUnix returns the timestamp pegnetd will assign to an entry at height h, minute m.
func (c *Chain) EntryUnix(h uint32, minute int) int64 {
	if minute == 0 {
		minute = 1
	}
	return c.TimestampUnix(h) + int64(minute)*60
}

func (c *Chain) ensure(h uint32) (*builtBlock, error) {
	if h <= c.Base || h > c.Tip() {
		return nil, fmt.Errorf("height %d out of range", h)
	}
	idx := int(h - c.Base - 1)
	for len(c.built) <= idx {
		bb, err := c.build(len(c.built))
		if err != nil {
			return nil, err
		}
		c.built = append(c.built, bb)
	}
	return c.built[idx], nil
}

// Built returns the entry hashes of height h (building the chain up to it).
func (c *Chain) Hashes(h uint32) (opr, spr, tx []factom.Bytes32, txids []factom.Bytes32, err error) {
	c.mu.Lock()
	defer c.mu.Unlock()
	bb, err := c.ensure(h)
	if err != nil {
		return nil, nil, nil, nil, err
	}
	return bb.OPRHashes, bb.SPRHashes, bb.TXHashes, bb.TxIDs, nil
}

func (c *Chain) EBlockKeyMR(h uint32, chain factom.Bytes32) (factom.Bytes32, bool) {
	c.mu.Lock()
	defer c.mu.Unlock()
	bb, err := c.ensure(h)
	if err != nil {
		return factom.Bytes32{}, false
	}
	k, ok := bb.eblockKeyMR[chain]
	return k, ok
}

// EntryHash computes the hash an entry gets on the given chain.
func EntryHash(chain factom.Bytes32, e Entry) factom.Bytes32 {
	return factom.ComputeEntryHash(marshalEntry(chain, e))
}

func marshalEntry(chain factom.Bytes32, e Entry) []byte {
	extLen := 0
	for _, x := range e.ExtIDs {
		extLen += 2 + len(x)
	}
	data := make([]byte, 0, 35+extLen+len(e.Content))
	data = append(data, 0)
	data = append(data, chain[:]...)
	var l [2]byte
	binary.BigEndian.PutUint16(l[:], uint16(extLen))
	data = append(data, l[:]...)
	for _, x := range e.ExtIDs {
		binary.BigEndian.PutUint16(l[:], uint16(len(x)))
		data = append(data, l[:]...)
		data = append(data, x...)
	}
	data = append(data, e.Content...)
	return data
}

func (c *Chain) buildEBlock(chain factom.Bytes32, h uint32, entries []Entry) (keyMR factom.Bytes32, hashes []factom.Bytes32, err error) {
	// objects: entry hashes with minute markers
	var objects [][]byte
	cur := 0
	for _, e := range entries {
		m := e.Minute
		if m == 0 {
			m = 1
		}
		if m < 1 || m > 10 {
			return keyMR, nil, fmt.Errorf("bad minute %d", m)
		}
		if cur != 0 && m < cur {
			return keyMR, nil, fmt.Errorf("entries out of minute order")
		}
		if cur != 0 && m > cur {
			mk := make([]byte, 32)
			mk[31] = byte(cur)
			objects = append(objects, mk)
		}
		cur = m
		raw := marshalEntry(chain, e)
		if len(raw) > factom.EntryMaxTotalLen {
			return keyMR, nil, fmt.Errorf("fake: entry of %d bytes cannot exist on Factom", len(raw))
		}
		eh := factom.ComputeEntryHash(raw)
		c.raw[eh] = raw
		hashes = append(hashes, eh)
		hc := eh
		objects = append(objects, hc[:])
	}
	mk := make([]byte, 32)
	mk[31] = byte(cur)
	objects = append(objects, mk)

	bodyMR, err := factom.ComputeEBlockBodyMR(objects)
	if err != nil {
		return keyMR, nil, err
	}
	head := c.seq[chain]
	if head == nil {
		head = &chainHead{}
	}
	data := make([]byte, 0, factom.EBlockHeaderLen+32*len(objects))
	data = append(data, chain[:]...)
	data = append(data, bodyMR[:]...)
	data = append(data, head.keyMR[:]...)
	data = append(data, head.fullHash[:]...)
	var u [4]byte
	binary.BigEndian.PutUint32(u[:], head.seq)
	data = append(data, u[:]...)
	binary.BigEndian.PutUint32(u[:], h)
	data = append(data, u[:]...)
	binary.BigEndian.PutUint32(u[:], uint32(len(objects)))
	data = append(data, u[:]...)
	for _, o := range objects {
		data = append(data, o...)
	}
	hh := factom.ComputeEBlockHeaderHash(data)
	keyMR = factom.ComputeKeyMR(&hh, &bodyMR)
	c.raw[keyMR] = data
	c.seq[chain] = &chainHead{seq: head.seq + 1, keyMR: keyMR, fullHash: factom.ComputeFullHash(data)}
	return keyMR, hashes, nil
}

func marshalFTx(t FTx, coinbase bool) (raw []byte, txid factom.Bytes32) {
	var b bytes.Buffer
	b.Write(varintf.Encode(2)) // version
	var ms [8]byte
	binary.BigEndian.PutUint64(ms[:], uint64(t.SaltMs))
	b.Write(ms[2:])
	b.WriteByte(byte(len(t.Inputs)))
	b.WriteByte(byte(len(t.Outputs)))
	b.WriteByte(byte(len(t.ECOuts)))
	for _, lst := range [][]FIO{t.Inputs, t.Outputs, t.ECOuts} {
		for _, io := range lst {
			b.Write(varintf.Encode(io.Amount))
			b.Write(io.Address[:])
		}
	}
	ledger := append([]byte{}, b.Bytes()...)
	txid = sha256.Sum256(ledger)
	for i := range t.Inputs {
		var seed [32]byte
		if i < len(t.Seeds) {
			seed = t.Seeds[i]
		}
		fs := factom.FsAddress(seed)
		b.Write(fs.RCD())
		b.Write(fs.Sign(ledger))
	}
	return b.Bytes(), txid
}

func (c *Chain) buildFBlock(h uint32, txs []FTx) (raw []byte, keyMR factom.Bytes32, txids []factom.Bytes32, err error) {
	var body bytes.Buffer
	cb, _ := marshalFTx(FTx{SaltMs: int64(c.TimestampUnix(h)) * 1000}, true)
	body.Write(cb)
	for _, t := range txs {
		if t.SaltMs == 0 {
			t.SaltMs = int64(c.TimestampUnix(h))*1000 + 1
		}
		r, id := marshalFTx(t, false)
		body.Write(r)
		txids = append(txids, id)
	}
	for i := 0; i < 10; i++ {
		body.WriteByte(0)
	}
	var b bytes.Buffer
	fc := factom.FBlockChainID()
	b.Write(fc[:])
	b.Write(make([]byte, 32)) // body MR (not verified by the client for by-height requests)
	b.Write(make([]byte, 32)) // prev key mr
	b.Write(make([]byte, 32)) // prev ledger key mr
	var u8 [8]byte
	binary.BigEndian.PutUint64(u8[:], 1000)
	b.Write(u8[:])
	var u4 [4]byte
	binary.BigEndian.PutUint32(u4[:], h)
	b.Write(u4[:])
	b.Write(varintf.Encode(0))
	binary.BigEndian.PutUint32(u4[:], uint32(1+len(txs)))
	b.Write(u4[:])
	binary.BigEndian.PutUint32(u4[:], uint32(body.Len()))
	b.Write(u4[:])
	b.Write(body.Bytes())
	raw = b.Bytes()
	// parse own bytes to obtain the key MR the client will compute
	var fb factom.FBlock
	if err := fb.UnmarshalBinary(raw); err != nil {
		return nil, keyMR, nil, fmt.Errorf("fake fblock does not parse: %v", err)
	}
	return raw, *fb.KeyMR, txids, nil
}

func (c *Chain) build(idx int) (*builtBlock, error) {
	h := c.Base + 1 + uint32(idx)
	blk := c.Blocks[idx]
	bb := &builtBlock{eblockKeyMR: map[factom.Bytes32]factom.Bytes32{}}

	type pair struct{ chain, keyMR factom.Bytes32 }
	var pairs []pair
	add := func(chain factom.Bytes32, entries []Entry, dst *[]factom.Bytes32) error {
		if len(entries) == 0 {
			return nil
		}
		k, hs, err := c.buildEBlock(chain, h, entries)
		if err != nil {
			return err
		}
		*dst = hs
		bb.eblockKeyMR[chain] = k
		pairs = append(pairs, pair{chain, k})
		return nil
	}
	if err := add(c.IDs.OPR, blk.OPR, &bb.OPRHashes); err != nil {
		return nil, err
	}
	if err := add(c.IDs.SPR, blk.SPR, &bb.SPRHashes); err != nil {
		return nil, err
	}
	if err := add(c.IDs.TX, blk.TX, &bb.TXHashes); err != nil {
		return nil, err
	}
	sort.Slice(pairs, func(i, j int) bool { return bytes.Compare(pairs[i].chain[:], pairs[j].chain[:]) < 0 })

	fraw, fkey, txids, err := c.buildFBlock(h, blk.Factoid)
	if err != nil {
		return nil, err
	}
	bb.fblockRaw = fraw
	bb.TxIDs = txids

	var elements [][]byte
	body := make([]byte, 0, 64*(3+len(pairs)))
	addEl := func(chain, k factom.Bytes32) {
		start := len(body)
		body = append(body, chain[:]...)
		body = append(body, k[:]...)
		_ = start
	}
	a, e, f := factom.ABlockChainID(), factom.ECBlockChainID(), factom.FBlockChainID()
	var hk factom.Bytes32
	binary.BigEndian.PutUint32(hk[:4], h)
	hk[31] = 0xaa
	addEl(a, hk)
	hk[31] = 0xec
	addEl(e, hk)
	addEl(f, fkey)
	for _, p := range pairs {
		addEl(p.chain, p.keyMR)
	}
	for i := 0; i < len(body); i += 64 {
		elements = append(elements, body[i:i+64])
	}
	bodyMR, err := factom.ComputeDBlockBodyMR(elements)
	if err != nil {
		return nil, err
	}
	var prevKey, prevFull factom.Bytes32
	if idx > 0 {
		prevKey, prevFull = c.built[idx-1].keyMR, c.built[idx-1].fullHash
	}
	data := make([]byte, 0, factom.DBlockHeaderLen+len(body))
	data = append(data, 0)
	data = append(data, 0xfa, 0x92, 0xe5, 0xa2) // mainnet network id
	data = append(data, bodyMR[:]...)
	data = append(data, prevKey[:]...)
	data = append(data, prevFull[:]...)
	var u [4]byte
	binary.BigEndian.PutUint32(u[:], c.TimestampMin(h))
	data = append(data, u[:]...)
	binary.BigEndian.PutUint32(u[:], h)
	data = append(data, u[:]...)
	binary.BigEndian.PutUint32(u[:], uint32(3+len(pairs)))
	data = append(data, u[:]...)
	data = append(data, body...)
	hh := factom.ComputeDBlockHeaderHash(data)
	bb.keyMR = factom.ComputeKeyMR(&hh, &bodyMR)
	bb.fullHash = factom.ComputeFullHash(data)
	bb.dblockRaw = data
	return bb, nil
}

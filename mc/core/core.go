// Package core holds the types shared by all property drivers: run context,
// results, violations, known findings, evidence.
package core

import (
	"crypto/sha256"
	"encoding/hex"
	"encoding/json"
	"fmt"
	"os"
	"path/filepath"
	"regexp"
	"sort"
	"sync"
	"time"
)

// Ctx is the run context of one worker.
type Ctx struct {
	Prop     string
	Tier     string // quick | thorough
	Seed     int64
	Shard    int
	NShards  int
	Deadline time.Time
	// Only, if set, restricts the run to the scenario with this key (replay).
	Only string
	// Verbose prints per-scenario lines to stderr.
	Verbose bool
}

func (c *Ctx) Thorough() bool { return c.Tier == "thorough" }

// Mine reports whether scenario number i belongs to this shard (and, in replay mode, nothing is filtered here).
func (c *Ctx) Mine(i int) bool {
	if c.NShards <= 1 {
		return true
	}
	return i%c.NShards == c.Shard
}

// Want reports whether the scenario with this key should run (replay filter).
func (c *Ctx) Want(key string) bool { return c.Only == "" || c.Only == key }

// Expired reports whether the internal deadline has passed.
func (c *Ctx) Expired() bool { return !c.Deadline.IsZero() && time.Now().After(c.Deadline) }

func (c *Ctx) Logf(f string, a ...interface{}) {
	if c.Verbose {
		fmt.Fprintf(os.Stderr, f+"\n", a...)
	}
}

// Violation is one property violation found.
type Violation struct {
	// Key identifies the scenario (replayable with `pvmc replay <prop> <key>`).
	Key string `json:"key"`
	// Signature classifies scenario predicate + discrepancy shape; known findings match on it.
	Signature string `json:"signature"`
	Desc      string `json:"desc"`
	// Detail is free-form (diffs, error texts).
	Detail []string `json:"detail,omitempty"`
}

// Result is what one worker (or the merged run) reports.
type Result struct {
	Prop        string `json:"prop"`
	Evaluations int    `json:"evaluations"`
	// Distinct holds hashes of distinct non-trivial cases.
	Distinct    map[string]bool `json:"distinct"`
	States      int             `json:"states"`
	Transitions int             `json:"transitions"`
	Traces      int             `json:"traces"`
	Samples     []interface{}   `json:"samples"`
	Violations  []Violation     `json:"violations"`
	// Counters: named tallies (inconclusive, wedged, died, outcomes...).
	Counters   map[string]int `json:"counters"`
	Exhaustive bool           `json:"exhaustive"`
	Notes      []string       `json:"notes"`
	// Outcomes: distinct observed outcome classes (for vacuity checks).
	Outcomes map[string]int `json:"outcomes"`
	// StateSet holds hashes of distinct states visited (States = len when used).
	StateSet map[string]bool `json:"state_set,omitempty"`
	mu       sync.Mutex
}

func NewResult(prop string) *Result {
	return &Result{Prop: prop, Distinct: map[string]bool{}, Counters: map[string]int{}, Outcomes: map[string]int{}, Exhaustive: true}
}

// AddState records a visited state by hash.
func (r *Result) AddState(h string) {
	r.mu.Lock()
	if r.StateSet == nil {
		r.StateSet = map[string]bool{}
	}
	r.StateSet[h] = true
	r.States = len(r.StateSet)
	r.mu.Unlock()
}

func (r *Result) Eval() {
	r.mu.Lock()
	r.Evaluations++
	r.mu.Unlock()
}

// NonTrivial records a distinct non-trivial case by its canonical description.
func (r *Result) NonTrivial(desc string) {
	h := sha256.Sum256([]byte(desc))
	r.mu.Lock()
	r.Distinct[hex.EncodeToString(h[:8])] = true
	r.mu.Unlock()
}

func (r *Result) Count(name string, n int) {
	r.mu.Lock()
	r.Counters[name] += n
	r.mu.Unlock()
}

func (r *Result) Outcome(name string) {
	r.mu.Lock()
	r.Outcomes[name]++
	r.mu.Unlock()
}

func (r *Result) Sample(s interface{}) {
	r.mu.Lock()
	if len(r.Samples) < 6 {
		r.Samples = append(r.Samples, s)
	}
	r.mu.Unlock()
}

func (r *Result) Note(f string, a ...interface{}) {
	r.mu.Lock()
	r.Notes = append(r.Notes, fmt.Sprintf(f, a...))
	r.mu.Unlock()
}

func (r *Result) Violate(v Violation) {
	r.mu.Lock()
	r.Violations = append(r.Violations, v)
	r.mu.Unlock()
}

func (r *Result) Capped(why string) {
	r.mu.Lock()
	r.Exhaustive = false
	r.Notes = append(r.Notes, "cap: "+why)
	r.mu.Unlock()
}

// Merge folds o into r.
func (r *Result) Merge(o *Result) {
	r.Evaluations += o.Evaluations
	for k := range o.Distinct {
		r.Distinct[k] = true
	}
	if len(o.StateSet) > 0 || len(r.StateSet) > 0 {
		if r.StateSet == nil {
			r.StateSet = map[string]bool{}
		}
		for k := range o.StateSet {
			r.StateSet[k] = true
		}
		r.States = len(r.StateSet)
	} else {
		r.States += o.States
	}
	r.Transitions += o.Transitions
	r.Traces += o.Traces
	for _, s := range o.Samples {
		if len(r.Samples) < 8 {
			r.Samples = append(r.Samples, s)
		}
	}
	r.Violations = append(r.Violations, o.Violations...)
	for k, v := range o.Counters {
		r.Counters[k] += v
	}
	for k, v := range o.Outcomes {
		r.Outcomes[k] += v
	}
	if !o.Exhaustive {
		r.Exhaustive = false
	}
	seen := map[string]bool{}
	for _, n := range r.Notes {
		seen[n] = true
	}
	for _, n := range o.Notes {
		if !seen[n] {
			r.Notes = append(r.Notes, n)
			seen[n] = true
		}
	}
}

// ---------------------------------------------------------------- known findings

type Finding struct {
	Property    string `json:"property"`
	ID          string `json:"id"`
	Status      string `json:"status"` // open | fixed
	Commit      string `json:"commit,omitempty"`
	Match       string `json:"match"` // regexp over Violation.Signature (anchored)
	Description string `json:"description"`
	Example     string `json:"example_replay,omitempty"`
}

func LoadFindings(path string) ([]Finding, error) {
	b, err := os.ReadFile(path)
	if err != nil {
		if os.IsNotExist(err) {
			return nil, nil
		}
		return nil, err
	}
	var f struct {
		Findings []Finding `json:"findings"`
	}
	if err := json.Unmarshal(b, &f); err != nil {
		return nil, err
	}
	return f.Findings, nil
}

// Classify splits violations into known (open finding matches) and new.
func Classify(prop string, vs []Violation, fs []Finding) (known map[string][]Violation, fresh []Violation) {
	known = map[string][]Violation{}
	type cf struct {
		f  Finding
		re *regexp.Regexp
	}
	var open []cf
	for _, f := range fs {
		if f.Property != prop || f.Status != "open" {
			continue
		}
		re, err := regexp.Compile("^(?:" + f.Match + ")$")
		if err != nil {
			continue
		}
		open = append(open, cf{f, re})
	}
	for _, v := range vs {
		matched := false
		for _, c := range open {
			if c.re.MatchString(v.Signature) {
				known[c.f.ID] = append(known[c.f.ID], v)
				matched = true
				break
			}
		}
		if !matched {
			fresh = append(fresh, v)
		}
	}
	return
}

// ---------------------------------------------------------------- evidence

type Evidence struct {
	PropertyID  string                 `json:"property_id"`
	Tier        string                 `json:"tier"`
	Seed        int64                  `json:"seed"`
	Level       string                 `json:"level"`
	Coverage    map[string]interface{} `json:"coverage"`
	Assumptions []string               `json:"assumptions"`
	WallS       float64                `json:"wall_s"`
	Violations  int                    `json:"violations"`
}

func WriteEvidence(dir string, ev *Evidence) error {
	os.MkdirAll(dir, 0777)
	b, err := json.MarshalIndent(ev, "", " ")
	if err != nil {
		return err
	}
	tmp := filepath.Join(dir, ev.PropertyID+".json.tmp")
	if err := os.WriteFile(tmp, b, 0666); err != nil {
		return err
	}
	return os.Rename(tmp, filepath.Join(dir, ev.PropertyID+".json"))
}

func SortedKeys(m map[string]int) []string {
	var ks []string
	for k := range m {
		ks = append(ks, k)
	}
	sort.Strings(ks)
	return ks
}

// Prop is a registered property driver.
type Prop struct {
	ID    string
	Level string // exploration | fault_enumeration | model_checking
	Rule  string // how cases are enumerated / what is non-trivial
	// Assumptions / trusted base
	Assumptions []string
	// Run explores this worker's shard.
	Run func(c *Ctx, r *Result)
	// MaxWorkers caps parallel workers (0 = default 16).
	MaxWorkers int
}

var Registry = map[string]*Prop{}

func Register(p *Prop) { Registry[p.ID] = p }

// Package kit builds deterministic chain artefacts: keys, signed FAT-2 batches,
// OPR and SPR records, factoid burns. Nothing in here reads the clock or math/rand.
package kit

import (
	"crypto/ed25519"
	"crypto/sha256"
	"crypto/sha512"
	"encoding/binary"
	"encoding/hex"
	"encoding/json"
	"fmt"
	"strconv"
	"strings"

	"github.com/Factom-Asset-Tokens/factom"
	"github.com/pegnet/pegnet/modules/grader"
	"github.com/pegnet/pegnet/modules/opr"
	"github.com/pegnet/pegnetd/fat/fat2"

	"pegverif/fake"
)

// ---------------------------------------------------------------- keys

type Signer interface {
	RCD() []byte
	Sign(msg []byte) []byte
	FAAddress() factom.FAAddress
}

func seed(tag string, i int) [32]byte {
	return sha256.Sum256([]byte(fmt.Sprintf("pegverif/%s/%d", tag, i)))
}

// Key returns the i-th deterministic ed25519 (RCD-1) key.
func Key(i int) factom.FsAddress { return factom.FsAddress(seed("fs", i)) }

// EthKey returns the i-th deterministic secp256k1 (RCD-e) key.
func EthKey(i int) factom.EthSecret { return factom.EthSecret(seed("eth", i)) }

func Addr(i int) factom.FAAddress { return Key(i).FAAddress() }

func AddrStr(i int) string { return Addr(i).String() }

// ---------------------------------------------------------------- FAT-2 batches

// Tx is a symbolic transaction.
type Tx struct {
	From   factom.FAAddress
	Asset  string // "pUSD", "PEG", ...
	Amount uint64
	// exactly one of:
	To   []Out
	Conv string
}

type Out struct {
	Addr   factom.FAAddress
	Amount uint64
}

func Transfer(from factom.FAAddress, asset string, amount uint64, to factom.FAAddress) Tx {
	return Tx{From: from, Asset: asset, Amount: amount, To: []Out{{to, amount}}}
}

func Conversion(from factom.FAAddress, asset string, amount uint64, to string) Tx {
	return Tx{From: from, Asset: asset, Amount: amount, Conv: to}
}

func (t Tx) JSON() string {
	var b strings.Builder
	fmt.Fprintf(&b, `{"input":{"address":"%s","amount":%d,"type":"%s"}`, t.From.String(), t.Amount, t.Asset)
	if t.Conv != "" {
		fmt.Fprintf(&b, `,"conversion":"%s"`, t.Conv)
	} else {
		b.WriteString(`,"transfers":[`)
		for i, o := range t.To {
			if i > 0 {
				b.WriteByte(',')
			}
			fmt.Fprintf(&b, `{"address":"%s","amount":%d}`, o.Addr.String(), o.Amount)
		}
		b.WriteString(`]`)
	}
	b.WriteString(`}`)
	return b.String()
}

func (t Tx) String() string {
	if t.Conv != "" {
		return fmt.Sprintf("conv %s %d %s->%s", short(t.From), t.Amount, t.Asset, t.Conv)
	}
	var outs []string
	for _, o := range t.To {
		outs = append(outs, fmt.Sprintf("%s:%d", short(o.Addr), o.Amount))
	}
	return fmt.Sprintf("xfer %s %d %s ->[%s]", short(t.From), t.Amount, t.Asset, strings.Join(outs, ","))
}

func short(a factom.FAAddress) string { return a.String()[:8] }

// BatchJSON renders the canonical content of a batch.
func BatchJSON(txs ...Tx) []byte {
	parts := make([]string, len(txs))
	for i, t := range txs {
		parts[i] = t.JSON()
	}
	return []byte(`{"version":1,"transactions":[` + strings.Join(parts, ",") + `]}`)
}

// SignContent produces the entry (ext ids + content) for arbitrary content, signed
// by the given signers with the given salt (unix seconds), for the given chain.
func SignContent(chain factom.Bytes32, content []byte, salt int64, signers ...Signer) fake.Entry {
	timeSalt := []byte(strconv.FormatInt(salt, 10))
	ext := [][]byte{timeSalt}
	// fat103: message = rcdSigID (decimal, left padded to the width of the largest id) || salt || chain || content
	maxW := len(strconv.Itoa(len(signers) - 1))
	if len(signers) == 0 {
		maxW = 1
	}
	for id, s := range signers {
		ids := strconv.Itoa(id)
		_ = maxW
		msg := append([]byte(ids), timeSalt...)
		msg = append(msg, chain[:]...)
		msg = append(msg, content...)
		h := sha512.Sum512(msg)
		ext = append(ext, s.RCD(), s.Sign(h[:]))
	}
	return fake.Entry{ExtIDs: ext, Content: append([]byte{}, content...)}
}

// SignBatch signs the canonical batch of txs with one signer.
func SignBatch(chain factom.Bytes32, salt int64, signer Signer, txs ...Tx) fake.Entry {
	return SignContent(chain, BatchJSON(txs...), salt, signer)
}

// CheckBatch parses the entry with the real parser at the given height; used by
// scenario builders as a self-check that a supposedly valid entry is valid.
func CheckBatch(chain factom.Bytes32, e fake.Entry, entryUnix int64, height int32) error {
	fe := toFactomEntry(chain, e, entryUnix)
	_, err := fat2.NewTransactionBatch(fe, height)
	return err
}

func toFactomEntry(chain factom.Bytes32, e fake.Entry, entryUnix int64) factom.Entry {
	var fe factom.Entry
	c := chain
	fe.ChainID = &c
	for _, x := range e.ExtIDs {
		fe.ExtIDs = append(fe.ExtIDs, factom.Bytes(x))
	}
	fe.Content = factom.Bytes(e.Content)
	h := fake.EntryHash(chain, e)
	fe.Hash = &h
	fe.Timestamp = timeUnix(entryUnix)
	return fe
}

// ---------------------------------------------------------------- OPR

// Rates is a vector over opr.V5Assets order (PEG first); shorter asset lists use a prefix.
type Rates []uint64

// FlatRates returns n rates all equal to v.
func FlatRates(n int, v uint64) Rates {
	r := make(Rates, n)
	for i := range r {
		r[i] = v
	}
	return r
}

func AssetIndex(name string) int {
	name = strings.TrimPrefix(name, "p")
	for i, a := range opr.V5Assets {
		if a == name {
			return i
		}
	}
	panic("unknown asset " + name)
}

// With returns a copy with asset set to v.
func (r Rates) With(asset string, v uint64) Rates {
	c := append(Rates{}, r...)
	c[AssetIndex(asset)] = v
	return c
}

func AssetCount(version uint8) int {
	switch version {
	case 1:
		return len(opr.V1Assets)
	case 2, 3:
		return len(opr.V2Assets)
	case 4:
		return len(opr.V4Assets)
	default:
		return len(opr.V5Assets)
	}
}

// OPRSpec describes one oracle price record.
type OPRSpec struct {
	Version  uint8
	Height   int32
	Prev     []string // previous winners (short hashes)
	Rates    Rates    // v2+: uint64 1e8 fixed point; v1: converted to float by /1e8
	Coinbase string
	ID       string
	Nonce    []byte
	// mutations
	BadDifficulty bool
	VersionByte   *byte // override ext id 2
}

func (s OPRSpec) Entry() fake.Entry {
	var content []byte
	switch s.Version {
	case 1:
		c := opr.V1Content{CoinbaseAddress: s.Coinbase, Dbht: s.Height, WinPreviousOPR: s.Prev, FactomDigitalID: s.ID}
		c.Assets = make(opr.V1AssetList)
		for i, a := range opr.V1Assets {
			c.Assets[a] = float64(s.Rates[i]) / 1e8
		}
		content, _ = c.Marshal()
	default:
		c := opr.V2Content{Address: s.Coinbase, ID: s.ID, Height: s.Height}
		for _, w := range s.Prev {
			b, _ := hex.DecodeString(w)
			c.Winners = append(c.Winners, b)
		}
		c.Assets = append([]uint64{}, s.Rates[:AssetCount(s.Version)]...)
		content, _ = c.Marshal()
	}
	oprhash := sha256.Sum256(content)
	diff := grader.LX.Hash(append(oprhash[:], s.Nonce...))[:8]
	if s.BadDifficulty {
		diff = append([]byte{}, diff...)
		diff[7] ^= 1
	}
	vb := s.Version
	if s.VersionByte != nil {
		vb = *s.VersionByte
	}
	return fake.Entry{ExtIDs: [][]byte{append([]byte{}, s.Nonce...), append([]byte{}, diff...), {vb}}, Content: content}
}

// GradedSet returns n valid OPR entries all quoting the same rates. Record i pays
// to coinbase(i) and uses nonce i.
func GradedSet(version uint8, height int32, prev []string, rates Rates, n int, coinbase func(i int) string) []fake.Entry {
	out := make([]fake.Entry, n)
	for i := 0; i < n; i++ {
		var nonce [4]byte
		binary.BigEndian.PutUint32(nonce[:], uint32(i+1))
		out[i] = OPRSpec{Version: version, Height: height, Prev: prev, Rates: rates,
			Coinbase: coinbase(i), ID: fmt.Sprintf("miner%d", i), Nonce: nonce[:]}.Entry()
	}
	return out
}

// ---------------------------------------------------------------- SPR

type SPRSpec struct {
	Version  uint8 // 5, 6, 7
	Height   int32
	Rates    Rates
	Coinbase string
	ID       string
	Staker   []byte           // declared staker id (ext id 1): raw 32 byte address
	SignWith *factom.FsAddress // S2/S3: key that signs; nil => no signature block (S1) / garbage
}

func (s SPRSpec) Entry() fake.Entry {
	c := opr.V2Content{Address: s.Coinbase, ID: s.ID, Height: s.Height}
	c.Assets = append([]uint64{}, s.Rates[:len(opr.V5Assets)]...)
	content, _ := c.Marshal()
	var sigBlock []byte
	if s.SignWith != nil {
		priv := ed25519.NewKeyFromSeed(s.SignWith[:])
		sigBlock = append(sigBlock, priv.Public().(ed25519.PublicKey)...)
		sigBlock = append(sigBlock, ed25519.Sign(priv, content)...)
	} else {
		sigBlock = []byte{0}
	}
	return fake.Entry{ExtIDs: [][]byte{{s.Version}, append([]byte{}, s.Staker...), sigBlock}, Content: content}
}

// ---------------------------------------------------------------- factoid

// Burn builds a valid FCT->pFCT burn by key i of the given amount (factoshis).
func Burn(keyIdx int, amount uint64, burnRCD [32]byte, saltMs int64) fake.FTx {
	k := Key(keyIdx)
	return fake.FTx{
		Inputs: []fake.FIO{{Amount: amount, Address: k.FAAddress()}},
		ECOuts: []fake.FIO{{Amount: 0, Address: burnRCD}},
		SaltMs: saltMs,
		Seeds:  [][32]byte{k},
	}
}

// ---------------------------------------------------------------- misc

func MustJSON(v interface{}) string {
	b, err := json.Marshal(v)
	if err != nil {
		panic(err)
	}
	return string(b)
}

package kit

import "time"

func timeUnix(s int64) time.Time { return time.Unix(s, 0) }

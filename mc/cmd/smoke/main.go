package main

import (
	"fmt"
	"os"
	"time"

	"pegverif/canon"
	"pegverif/drive"
	"pegverif/fake"
	"pegverif/kit"
	"pegverif/sqlw"
)

func main() {
	drive.Setup()
	e := drive.EraStage(drive.StPIP10)
	e.Apply()
	b := drive.NewBuilder(e)
	r1 := kit.FlatRates(62, 1e8).With("PEG", 2e7).With("EUR", 12e7)
	A := kit.Addr(1)
	for i := 0; i < 4; i++ {
		b.Add(drive.BlockSpec{Rates: r1, OPRPayTo: A.String()})
	}
	b.Add(drive.BlockSpec{Rates: r1, TX: []fake.Entry{b.Tx(1, kit.Transfer(A, "PEG", 100e8, kit.Addr(2))), b.Tx(1, kit.Conversion(A, "PEG", 50e8, "pUSD"))}})
	b.Add(drive.BlockSpec{Rates: r1})
	b.Add(drive.BlockSpec{})
	dir := drive.Scratch("smoke")
	defer os.RemoveAll(dir)
	t0 := time.Now()
	cnt := map[string]int{}
	hk := &sqlw.Hooks{Before: func(op *sqlw.Op) error { k := op.Kind + " " + op.SQL; if len(k) > 60 { k = k[:60] }; cnt[k]++; return nil }}
	d, err := drive.Open(dir+"/db", fake.NewNode(b.Chain), hk, false)
	if err != nil {
		panic(err)
	}
	out := d.SyncTo(b.Chain.Tip(), drive.SyncOpts{})
	fmt.Fprintln(os.Stderr, out, time.Since(t0), "ops", d.DB.Ops())
	for k, v := range cnt { if v > 50 { fmt.Fprintln(os.Stderr, v, k) } }
	for _, l := range out.Logs {
		fmt.Fprintln(os.Stderr, l)
	}
	d.Close()
	dump, err := canon.File(d.DBFile(), canon.All)
	if err != nil {
		panic(err)
	}
	for t, rows := range dump {
		if t == "pn_rate" || t == "pn_winners" {
			fmt.Fprintln(os.Stderr, t, len(rows))
			continue
		}
		for _, r := range rows {
			if len(r) > 300 {
				r = r[:300]
			}
			fmt.Fprintln(os.Stderr, t, r)
		}
	}
	fmt.Fprintln(os.Stderr, dump.Hash())
}

// pvmc: model checker driver for the pegnetd properties.
//
//	pvmc check  <prop> <quick|thorough>   run all shards in worker processes, write evidence, print verdict lines
//	pvmc worker <prop> <tier> <shard> <n> <out.json>
//	pvmc replay <prop> <key>              run one scenario verbosely
//	pvmc replayfile <path>
package main

import (
	"syscall"
	"crypto/sha256"
	"encoding/hex"
	"encoding/json"
	"fmt"
	"io"
	"os"
	"os/exec"
	"path/filepath"
	"runtime"
	"sort"
	"strconv"
	"strings"
	"sync"
	"time"

	"pegverif/core"
	"pegverif/drive"
	"pegverif/props"
)

func verifDir() string {
	if d := os.Getenv("PVMC_VERIF"); d != "" {
		return d
	}
	return "/verif"
}

func main() {
	if len(os.Args) < 2 {
		usage()
	}
	switch os.Args[1] {
	case "check":
		if len(os.Args) < 4 {
			usage()
		}
		os.Exit(check(os.Args[2], os.Args[3]))
	case "worker":
		worker(os.Args[2:])
	case "replay":
		if len(os.Args) < 4 {
			usage()
		}
		os.Exit(replay(os.Args[2], os.Args[3]))
	case "replayfile":
		b, err := os.ReadFile(os.Args[2])
		if err != nil {
			fmt.Fprintln(os.Stderr, err)
			os.Exit(2)
		}
		var rf struct {
			Property string `json:"property"`
			Key      string `json:"key"`
		}
		if err := json.Unmarshal(b, &rf); err != nil {
			fmt.Fprintln(os.Stderr, err)
			os.Exit(2)
		}
		os.Exit(replay(rf.Property, rf.Key))
	case "killtest":
		drive.SilenceStdout()
		h, _ := strconv.Atoi(os.Args[3])
		op, _ := strconv.Atoi(os.Args[4])
		props.KillTest(os.Args[2], uint32(h), op, os.Args[5])
	case "racepass":
		drive.SilenceStdout()
		n := 30
		if len(os.Args) > 2 {
			n, _ = strconv.Atoi(os.Args[2])
		}
		props.RacePass(n)
	case "warmup":
		drive.SilenceStdout()
		drive.Setup()
	case "list":
		var ids []string
		for id := range core.Registry {
			ids = append(ids, id)
		}
		sort.Strings(ids)
		for _, id := range ids {
			fmt.Println(id, core.Registry[id].Level)
		}
	default:
		usage()
	}
}

func usage() {
	fmt.Fprintln(os.Stderr, "usage: pvmc check <prop> <tier> | worker ... | replay <prop> <key> | replayfile <path> | list")
	os.Exit(2)
}

func seed() int64 {
	s, _ := strconv.ParseInt(os.Getenv("VERIF_SEED"), 10, 64)
	return s
}

func deadlineFor(tier string) time.Duration {
	if v := os.Getenv("PVMC_DEADLINE_S"); v != "" {
		if n, err := strconv.Atoi(v); err == nil {
			return time.Duration(n) * time.Second
		}
	}
	if tier == "thorough" {
		return 45 * time.Minute
	}
	return 9 * time.Minute
}

func worker(a []string) {
	if len(a) < 5 {
		usage()
	}
	out := drive.SilenceStdout()
	_ = out
	// a worker that runs away (a spinning daemon under test) must fail by itself instead of exhausting the machine
	lim := uint64(20 << 30)
	syscall.Setrlimit(syscall.RLIMIT_AS, &syscall.Rlimit{Cur: lim, Max: lim})
	p := core.Registry[a[0]]
	if p == nil {
		fmt.Fprintln(os.Stderr, "unknown property", a[0])
		os.Exit(2)
	}
	shard, _ := strconv.Atoi(a[2])
	n, _ := strconv.Atoi(a[3])
	c := &core.Ctx{Prop: a[0], Tier: a[1], Seed: seed(), Shard: shard, NShards: n,
		Deadline: time.Now().Add(deadlineFor(a[1])), Verbose: os.Getenv("PVMC_VERBOSE") != ""}
	// the deadline is honoured between scenarios; a scenario that never returns (a daemon under test spinning
	// without ever asking for the heights) must still end the worker: no verdict (exit 3), but the check terminates
	time.AfterFunc(time.Until(c.Deadline)+4*time.Minute, func() {
		buf := make([]byte, 1<<16)
		n := runtime.Stack(buf, true)
		fmt.Fprintf(os.Stderr, "worker %d: a scenario did not return %v after the deadline; goroutines:\n%s\n", shard, 4*time.Minute, buf[:n])
		os.Exit(3)
	})
	r := core.NewResult(a[0])
	func() {
		defer func() {
			if x := recover(); x != nil {
				buf := make([]byte, 1<<16)
				buf = buf[:runtime.Stack(buf, false)]
				fmt.Fprintf(os.Stderr, "worker %d harness panic: %v\n%s\n", shard, x, buf)
				os.Exit(3)
			}
		}()
		p.Run(c, r)
	}()
	b, _ := json.Marshal(r)
	if err := os.WriteFile(a[4], b, 0666); err != nil {
		fmt.Fprintln(os.Stderr, err)
		os.Exit(2)
	}
}

func replay(prop, key string) int {
	drive.SilenceStdout()
	p := core.Registry[prop]
	if p == nil {
		fmt.Fprintln(os.Stderr, "unknown property", prop)
		return 2
	}
	c := &core.Ctx{Prop: prop, Tier: "thorough", NShards: 1, Only: key, Verbose: true}
	if t := os.Getenv("PVMC_TIER"); t != "" {
		c.Tier = t
	}
	r := core.NewResult(prop)
	p.Run(c, r)
	fmt.Fprintf(os.Stderr, "replay %s %q: evaluations=%d violations=%d\n", prop, key, r.Evaluations, len(r.Violations))
	if r.Evaluations == 0 && len(r.Violations) == 0 {
		fmt.Fprintln(os.Stderr, "replay: no scenario with that key")
		return 2
	}
	for _, v := range r.Violations {
		fmt.Fprintf(os.Stderr, "  %s\n    %s\n", v.Signature, v.Desc)
		for _, d := range v.Detail {
			fmt.Fprintln(os.Stderr, "    "+d)
		}
	}
	if len(r.Violations) > 0 {
		return 1
	}
	return 0
}

func check(prop, tier string) int {
	start := time.Now()
	p := core.Registry[prop]
	if p == nil {
		fmt.Fprintln(os.Stderr, "unknown property", prop)
		return 2
	}
	vd := verifDir()
	n := runtime.NumCPU()
	if v := os.Getenv("PVMC_WORKERS"); v != "" {
		if k, err := strconv.Atoi(v); err == nil && k > 0 {
			n = k
		}
	}
	if n > 16 {
		n = 16
	}
	if p.MaxWorkers > 0 && n > p.MaxWorkers {
		n = p.MaxWorkers
	}
	tmp, err := os.MkdirTemp(os.TempDir(), "pvmc-run-")
	if err != nil {
		fmt.Fprintln(os.Stderr, err)
		return 2
	}
	defer os.RemoveAll(tmp)
	// scratch databases live on /dev/shm (memory): one root per check, removed at the end whatever happened to the workers;
	// roots left behind by a check that was itself killed are swept here (their process is gone)
	shm := "/dev/shm"
	if st, err := os.Stat(shm); err != nil || !st.IsDir() {
		shm = os.TempDir()
	}
	if ents, err := os.ReadDir(shm); err == nil {
		for _, e := range ents {
			var pid int
			if _, err := fmt.Sscanf(e.Name(), "pvmc-run-%d", &pid); err == nil && pid > 0 && syscall.Kill(pid, 0) != nil {
				os.RemoveAll(filepath.Join(shm, e.Name()))
			}
		}
	}
	scratchRoot := filepath.Join(shm, fmt.Sprintf("pvmc-run-%d", os.Getpid()))
	os.MkdirAll(scratchRoot, 0777)
	defer os.RemoveAll(scratchRoot)
	self, _ := os.Executable()
	var wg sync.WaitGroup
	errs := make([]error, n)
	logs := make([]string, n)
	for i := 0; i < n; i++ {
		wg.Add(1)
		go func(i int) {
			defer wg.Done()
			outf := filepath.Join(tmp, fmt.Sprintf("w%d.json", i))
			cmd := exec.Command(self, "worker", prop, tier, strconv.Itoa(i), strconv.Itoa(n), outf)
			lf, _ := os.Create(filepath.Join(tmp, fmt.Sprintf("w%d.log", i)))
			cmd.Stdout = io.Discard
			cmd.Stderr = lf
			cmd.Env = append(os.Environ(), "GOMAXPROCS=2", "PVMC_SCRATCH_ROOT="+scratchRoot)
			errs[i] = cmd.Run()
			lf.Close()
			if b, e := os.ReadFile(lf.Name()); e == nil {
				if len(b) > 4000 {
					b = b[len(b)-4000:]
				}
				logs[i] = string(b)
			}
		}(i)
	}
	wg.Wait()
	merged := core.NewResult(prop)
	harnessErr := false
	for i := 0; i < n; i++ {
		if errs[i] != nil {
			fmt.Fprintf(os.Stderr, "worker %d failed: %v\n%s\n", i, errs[i], logs[i])
			harnessErr = true
			continue
		}
		b, err := os.ReadFile(filepath.Join(tmp, fmt.Sprintf("w%d.json", i)))
		if err != nil {
			fmt.Fprintf(os.Stderr, "worker %d: %v\n", i, err)
			harnessErr = true
			continue
		}
		r := core.NewResult(prop)
		if err := json.Unmarshal(b, r); err != nil {
			fmt.Fprintf(os.Stderr, "worker %d: %v\n", i, err)
			harnessErr = true
			continue
		}
		merged.Merge(r)
	}
	if harnessErr {
		fmt.Fprintln(os.Stderr, "HARNESS-ERROR: a worker failed; no verdict")
		return 2
	}

	findings, err := core.LoadFindings(filepath.Join(vd, "known_findings.json"))
	if err != nil {
		fmt.Fprintln(os.Stderr, "known_findings.json:", err)
		return 2
	}
	known, fresh := core.Classify(prop, merged.Violations, findings)

	// replay files for fresh violations
	rdir := filepath.Join(vd, "replays", prop)
	var lines []string
	seenSig := map[string]bool{}
	sigCount := map[string]int{}
	sigTotal := map[string]int{}
	for _, v := range fresh {
		sigTotal[v.Signature]++
	}
	for _, v := range fresh {
		if seenSig[v.Signature] && len(lines) >= 20 {
			continue
		}
		seenSig[v.Signature] = true
		os.MkdirAll(rdir, 0777)
		h := sha256.Sum256([]byte(v.Key + "|" + v.Signature))
		path := filepath.Join(rdir, hex.EncodeToString(h[:6])+".json")
		b, _ := json.MarshalIndent(map[string]interface{}{
			"property": prop, "key": v.Key, "signature": v.Signature, "desc": v.Desc, "detail": v.Detail,
			"replay_cmd": fmt.Sprintf("./check.sh replay %s", path),
		}, "", " ")
		os.WriteFile(path, b, 0666)
		lines = append(lines, fmt.Sprintf("VIOLATION property=%s replay=%s", prop, path))
		sigCount[v.Signature]++
		if sigCount[v.Signature] <= 2 {
			fmt.Fprintf(os.Stderr, "violation: %s | %s | key=%s\n", v.Signature, v.Desc, v.Key)
			for _, d := range v.Detail {
				if len(d) > 600 {
					d = d[:600] + "…"
				}
				fmt.Fprintln(os.Stderr, "    "+d)
			}
		}
	}
	for sg, n := range sigTotal {
		fmt.Fprintf(os.Stderr, "violation signature %s: %d occurrences in total\n", sg, n)
	}
	var kids []string
	for id := range known {
		kids = append(kids, id)
	}
	sort.Strings(kids)
	fdesc := map[string]string{}
	for _, f := range findings {
		fdesc[f.ID] = f.Description
	}
	for _, id := range kids {
		fmt.Printf("KNOWN-FINDING: property=%s %s: %s (%d occurrences, e.g. key=%s)\n", prop, id, fdesc[id], len(known[id]), known[id][0].Key)
		if os.Getenv("PVMC_SHOW_KNOWN") != "" {
			for _, v := range known[id] {
				fmt.Fprintf(os.Stderr, "  known %s | %s | %s\n", id, v.Signature, v.Key)
			}
		}
	}
	for _, l := range lines {
		fmt.Println(l)
	}

	// C18: separate free-running race-detector pass of the same harness bodies (reports; only
	// crash-capable races on Go maps inside pegnetd code count as violations)
	var racePass map[string]interface{}
	if prop == "C18" {
		racePass = runRacePass(vd, tier)
		if n, _ := racePass["map_races_in_pegnetd"].(int); n > 0 {
			path := filepath.Join(rdir, "race-report.txt")
			os.MkdirAll(rdir, 0777)
			os.WriteFile(path, []byte(fmt.Sprint(racePass["first_map_race"])), 0666)
			fmt.Printf("VIOLATION property=C18 replay=%s\n", path)
			fresh = append(fresh, core.Violation{Key: "racepass", Signature: "C18:race-on-go-map-in-pegnetd"})
		}
	}
	// evidence
	cov := map[string]interface{}{
		"evaluations":         merged.Evaluations,
		"distinct_nontrivial": len(merged.Distinct),
		"rule":                p.Rule,
		"samples":             merged.Samples,
		"exhaustive":          merged.Exhaustive,
		"counters":            merged.Counters,
		"distinct_outcomes":   merged.Outcomes,
		"notes":               merged.Notes,
		"workers":             n,
		"known_findings_hit":  kids,
	}
	if p.Level == "model_checking" {
		cov["states"] = merged.States
		cov["transitions"] = merged.Transitions
		cov["traces_validated_against_impl"] = merged.Traces
	} else if merged.States > 0 {
		cov["states"] = merged.States
		cov["transitions"] = merged.Transitions
	}
	if len(merged.Samples) == 0 {
		cov["samples"] = []interface{}{"(no sample recorded)"}
	}
	if racePass != nil {
		cov["free_running_race_pass"] = racePass
	}
	ev := &core.Evidence{PropertyID: prop, Tier: tier, Seed: seed(), Level: p.Level, Coverage: cov,
		Assumptions: p.Assumptions, WallS: time.Since(start).Seconds(), Violations: len(fresh)}
	if err := core.WriteEvidence(filepath.Join(vd, "evidence"), ev); err != nil {
		fmt.Fprintln(os.Stderr, "evidence:", err)
		return 2
	}
	fmt.Fprintf(os.Stderr, "%s %s: evaluations=%d distinct=%d states=%d transitions=%d exhaustive=%v violations=%d known=%d wall=%.1fs\n",
		prop, tier, merged.Evaluations, len(merged.Distinct), merged.States, merged.Transitions, merged.Exhaustive, len(fresh), len(merged.Violations)-len(fresh), time.Since(start).Seconds())
	for _, k := range core.SortedKeys(merged.Outcomes) {
		fmt.Fprintf(os.Stderr, "  outcome %-40s %d\n", k, merged.Outcomes[k])
	}
	for _, k := range core.SortedKeys(merged.Counters) {
		fmt.Fprintf(os.Stderr, "  counter %-40s %d\n", k, merged.Counters[k])
	}
	for _, nn := range merged.Notes {
		fmt.Fprintf(os.Stderr, "  note %s\n", nn)
	}
	if len(fresh) > 0 {
		return 1
	}
	return 0
}

// runRacePass runs bin/pvmc-race (built with -race by check.sh) and classifies the detector's reports.
func runRacePass(vd, tier string) map[string]interface{} {
	out := map[string]interface{}{}
	bin := os.Getenv("PVMC_RACE_BIN")
	if bin == "" {
		bin = filepath.Join(vd, "bin", "pvmc-race")
	}
	if _, err := os.Stat(bin); err != nil {
		out["skipped"] = "race-detector binary not built"
		return out
	}
	n := "12"
	if tier == "thorough" {
		n = "150"
	}
	cmd := exec.Command(bin, "racepass", n)
	cmd.Env = append(os.Environ(), "GORACE=halt_on_error=0 history_size=2")
	b, _ := cmd.CombinedOutput()
	reports := strings.Split(string(b), "WARNING: DATA RACE")
	total, mapRaces, harness := 0, 0, 0
	sites := map[string]int{}
	first := ""
	for _, rep := range reports[1:] {
		total++
		end := strings.Index(rep, "==================")
		if end > 0 {
			rep = rep[:end]
		}
		inPeg := strings.Contains(rep, "github.com/pegnet/pegnetd/")
		if !inPeg {
			harness++
			continue
		}
		// first pegnetd frame of each side
		var frames []string
		for _, ln := range strings.Split(rep, "\n") {
			ln = strings.TrimSpace(ln)
			if strings.HasPrefix(ln, "github.com/pegnet/pegnetd/") {
				frames = append(frames, strings.TrimPrefix(strings.SplitN(ln, "(", 2)[0], "github.com/pegnet/pegnetd/"))
			}
		}
		key := ""
		if len(frames) > 0 {
			key = frames[0]
		}
		sites[key]++
		if strings.Contains(rep, "runtime.mapassign") || strings.Contains(rep, "runtime.mapaccess") || strings.Contains(rep, "runtime.mapiter") || strings.Contains(rep, "runtime.mapdelete") {
			mapRaces++
			if first == "" {
				first = rep
			}
		}
	}
	out["iterations"] = n
	out["reports"] = total
	out["reports_only_in_harness_or_libraries"] = harness
	out["map_races_in_pegnetd"] = mapRaces
	out["word_sized_or_other_races_in_pegnetd_by_first_frame"] = sites
	if first != "" {
		out["first_map_race"] = first
	}
	out["completed"] = strings.Contains(string(b), "RACEPASS: "+n+" iterations done")
	return out
}

// Package sqlw is a database/sql driver that wraps mattn's SQLite driver and
// reports every driver-level operation to a hook, which may fail the operation
// (fault injection), block (scheduling) or snapshot the files (crash images).
package sqlw

import (
	"context"
	"database/sql"
	"database/sql/driver"
	"io"
	"runtime"
	"strings"
	"sync"
	"sync/atomic"

	sqlite3 "github.com/mattn/go-sqlite3"
)

// Op is one driver-level operation.
type Op struct {
	Seq    int64
	Conn   int
	Kind   string // begin prepare exec query stmt-exec stmt-query commit rollback
	SQL    string
	InTx   bool
	Caller string // first pegnetd frame (only if Hooks.WantCaller)
	Stack  []string // all pegnetd frames, innermost first (only if WantCaller)
}

func (o *Op) IsWrite() bool {
	switch o.Kind {
	case "commit", "rollback", "begin":
		return true
	}
	s := strings.ToUpper(strings.TrimSpace(o.SQL))
	return strings.HasPrefix(s, "INSERT") || strings.HasPrefix(s, "UPDATE") || strings.HasPrefix(s, "DELETE") || strings.HasPrefix(s, "REPLACE") || strings.HasPrefix(s, "CREATE") || strings.HasPrefix(s, "ALTER")
}

// Hooks receive operations. All fields optional.
type Hooks struct {
	// Before is called before the operation reaches SQLite. A non-nil error is
	// returned to the caller instead of executing the operation.
	Before func(op *Op) error
	// After is called when the operation returned.
	After func(op *Op, err error)
	// RowsClosed is called when a cursor opened by a query op is closed/exhausted.
	RowsClosed func(op *Op)
	WantCaller bool
}

// DB bundles a *sql.DB with its operation counter.
type DB struct {
	*sql.DB
	c *connector
}

// Ops returns the number of operations seen so far.
func (d *DB) Ops() int64 { return atomic.LoadInt64(&d.c.seq) }

// SetHooks replaces the hooks (not concurrency-safe with running operations).
func (d *DB) SetHooks(h *Hooks) { d.c.hooks.Store(h) }

// KillConns closes every underlying SQLite connection abruptly (used after a
// simulated process death so that file locks are released within this process).
func (d *DB) KillConns() {
	d.c.mu.Lock()
	conns := d.c.conns
	d.c.conns = nil
	d.c.mu.Unlock()
	for _, c := range conns {
		c.kill()
	}
}

type connector struct {
	dsn    string
	drv    *sqlite3.SQLiteDriver
	hooks  atomic.Value // *Hooks
	seq    int64
	nconn  int32
	mu     sync.Mutex
	conns  []*conn
	closed int32
}

// Open opens dsn (a mattn/go-sqlite3 DSN) through the wrapper.
func Open(dsn string, h *Hooks) *DB {
	c := &connector{dsn: dsn, drv: &sqlite3.SQLiteDriver{}}
	if h == nil {
		h = &Hooks{}
	}
	c.hooks.Store(h)
	return &DB{DB: sql.OpenDB(c), c: c}
}

func (c *connector) Connect(ctx context.Context) (driver.Conn, error) {
	raw, err := c.drv.Open(c.dsn)
	if err != nil {
		return nil, err
	}
	id := int(atomic.AddInt32(&c.nconn, 1))
	cn := &conn{c: c, raw: raw.(*sqlite3.SQLiteConn), id: id}
	c.mu.Lock()
	c.conns = append(c.conns, cn)
	c.mu.Unlock()
	return cn, nil
}

func (c *connector) Driver() driver.Driver { return c.drv }

func (c *connector) h() *Hooks { return c.hooks.Load().(*Hooks) }

func (c *connector) op(cn *conn, kind, q string) *Op {
	o := &Op{Seq: atomic.AddInt64(&c.seq, 1), Conn: cn.id, Kind: kind, SQL: q, InTx: cn.inTx}
	if c.h().WantCaller {
		o.Stack = CallerStack()
		if len(o.Stack) > 0 {
			o.Caller = o.Stack[0]
		}
	}
	return o
}

func caller() string {
	var pcs [40]uintptr
	n := runtime.Callers(3, pcs[:])
	frames := runtime.CallersFrames(pcs[:n])
	for {
		f, more := frames.Next()
		if strings.Contains(f.Function, "github.com/pegnet/pegnetd/") {
			fn := f.Function[strings.Index(f.Function, "github.com/pegnet/pegnetd/")+len("github.com/pegnet/pegnetd/"):]
			return fn
		}
		if !more {
			return ""
		}
	}
}

// CallerStack returns all pegnetd frames, innermost first.
func CallerStack() []string {
	var pcs [60]uintptr
	n := runtime.Callers(2, pcs[:])
	frames := runtime.CallersFrames(pcs[:n])
	var out []string
	for {
		f, more := frames.Next()
		if i := strings.Index(f.Function, "github.com/pegnet/pegnetd/"); i >= 0 {
			out = append(out, f.Function[i+len("github.com/pegnet/pegnetd/"):])
		}
		if !more {
			return out
		}
	}
}

type conn struct {
	c      *connector
	raw    *sqlite3.SQLiteConn
	id     int
	inTx   bool
	killed int32
}

func (cn *conn) kill() {
	if atomic.CompareAndSwapInt32(&cn.killed, 0, 1) {
		cn.raw.Close()
	}
}

func (cn *conn) run(o *Op, f func() error) error {
	h := cn.c.h()
	if h.Before != nil {
		if err := h.Before(o); err != nil {
			if h.After != nil {
				h.After(o, err)
			}
			return err
		}
	}
	err := f()
	if h.After != nil {
		h.After(o, err)
	}
	return err
}

func (cn *conn) Prepare(q string) (driver.Stmt, error) { return cn.PrepareContext(context.Background(), q) }

func (cn *conn) PrepareContext(ctx context.Context, q string) (driver.Stmt, error) {
	o := cn.c.op(cn, "prepare", q)
	var st driver.Stmt
	err := cn.run(o, func() (e error) { st, e = cn.raw.PrepareContext(ctx, q); return })
	if err != nil {
		return nil, err
	}
	return &stmt{cn: cn, raw: st.(*sqlite3.SQLiteStmt), q: q}, nil
}

func (cn *conn) Close() error {
	if atomic.CompareAndSwapInt32(&cn.killed, 0, 1) {
		return cn.raw.Close()
	}
	return nil
}

func (cn *conn) Begin() (driver.Tx, error) { return cn.BeginTx(context.Background(), driver.TxOptions{}) }

func (cn *conn) BeginTx(ctx context.Context, opts driver.TxOptions) (driver.Tx, error) {
	o := cn.c.op(cn, "begin", "BEGIN")
	var t driver.Tx
	err := cn.run(o, func() (e error) { t, e = cn.raw.BeginTx(ctx, opts); return })
	if err != nil {
		return nil, err
	}
	cn.inTx = true
	return &tx{cn: cn, raw: t}, nil
}

func (cn *conn) ExecContext(ctx context.Context, q string, args []driver.NamedValue) (driver.Result, error) {
	o := cn.c.op(cn, "exec", q)
	var r driver.Result
	err := cn.run(o, func() (e error) { r, e = cn.raw.ExecContext(ctx, q, args); return })
	return r, err
}

func (cn *conn) QueryContext(ctx context.Context, q string, args []driver.NamedValue) (driver.Rows, error) {
	o := cn.c.op(cn, "query", q)
	var r driver.Rows
	err := cn.run(o, func() (e error) { r, e = cn.raw.QueryContext(ctx, q, args); return })
	if err != nil {
		return nil, err
	}
	return &rows{Rows: r, cn: cn, op: o}, nil
}

func (cn *conn) Ping(ctx context.Context) error { return cn.raw.Ping(ctx) }

func (cn *conn) ResetSession(ctx context.Context) error {
	if atomic.LoadInt32(&cn.killed) == 1 {
		return driver.ErrBadConn
	}
	return nil
}

func (cn *conn) IsValid() bool { return atomic.LoadInt32(&cn.killed) == 0 }

type tx struct {
	cn  *conn
	raw driver.Tx
}

func (t *tx) Commit() error {
	o := t.cn.c.op(t.cn, "commit", "COMMIT")
	ran := false
	err := t.cn.run(o, func() error { ran = true; return t.raw.Commit() })
	if err != nil && !ran {
		// an injected COMMIT failure: go-sqlite3 rolls the transaction back itself when COMMIT fails (SQLITE_BUSY),
		// because database/sql considers the transaction finished either way; do what the driver would have done
		t.raw.Rollback()
		t.cn.inTx = false
	}
	if err == nil {
		t.cn.inTx = false
	}
	return err
}

func (t *tx) Rollback() error {
	o := t.cn.c.op(t.cn, "rollback", "ROLLBACK")
	err := t.cn.run(o, func() error { return t.raw.Rollback() })
	t.cn.inTx = false
	return err
}

type stmt struct {
	cn  *conn
	raw *sqlite3.SQLiteStmt
	q   string
}

func (s *stmt) Close() error  { return s.raw.Close() }
func (s *stmt) NumInput() int { return s.raw.NumInput() }

func (s *stmt) Exec(args []driver.Value) (driver.Result, error) {
	nv := make([]driver.NamedValue, len(args))
	for i, a := range args {
		nv[i] = driver.NamedValue{Ordinal: i + 1, Value: a}
	}
	return s.ExecContext(context.Background(), nv)
}

func (s *stmt) Query(args []driver.Value) (driver.Rows, error) {
	nv := make([]driver.NamedValue, len(args))
	for i, a := range args {
		nv[i] = driver.NamedValue{Ordinal: i + 1, Value: a}
	}
	return s.QueryContext(context.Background(), nv)
}

func (s *stmt) ExecContext(ctx context.Context, args []driver.NamedValue) (driver.Result, error) {
	o := s.cn.c.op(s.cn, "stmt-exec", s.q)
	var r driver.Result
	err := s.cn.run(o, func() (e error) { r, e = s.raw.ExecContext(ctx, args); return })
	return r, err
}

func (s *stmt) QueryContext(ctx context.Context, args []driver.NamedValue) (driver.Rows, error) {
	o := s.cn.c.op(s.cn, "stmt-query", s.q)
	var r driver.Rows
	err := s.cn.run(o, func() (e error) { r, e = s.raw.QueryContext(ctx, args); return })
	if err != nil {
		return nil, err
	}
	return &rows{Rows: r, cn: s.cn, op: o}, nil
}

type rows struct {
	driver.Rows
	cn     *conn
	op     *Op
	closed bool
}

func (r *rows) done() {
	if !r.closed {
		r.closed = true
		if h := r.cn.c.h(); h.RowsClosed != nil {
			h.RowsClosed(r.op)
		}
	}
}

func (r *rows) Close() error {
	err := r.Rows.Close()
	r.done()
	return err
}

func (r *rows) Next(dest []driver.Value) error {
	err := r.Rows.Next(dest)
	if err == io.EOF {
		// SQLite resets the statement at EOF: the read lock is gone.
		r.done()
	}
	return err
}

// ColumnTypeDatabaseTypeName etc. are not forwarded: pegnetd does not use them.

package props

import (
	"crypto/ed25519"
	"encoding/hex"
	"fmt"
	"sort"
	"strings"

	"github.com/Factom-Asset-Tokens/factom"
	"github.com/pegnet/pegnet/modules/grader"
	"github.com/pegnet/pegnet/modules/graderStake"

	"pegverif/core"
	"pegverif/drive"
	"pegverif/fake"
	"pegverif/kit"
	"pegverif/sqlw"
)

// C11 Grading rewards and FCT burns are issued exactly as decided, once.
func init() {
	core.Register(&core.Prop{
		ID: "C11", Level: "exploration",
		Rule: "per grading era (OPR v1..v5, SPR S1..S3): OPR sets of {0, W-1, W, W+1, 51} valid records (W = winner count) with per-record rate noise, mixed with each kind of invalid record (version byte of another era, wrong height, wrong previous winners, wrong self-reported difficulty, exact duplicate, undecodable payout address), over 2-3 consecutive blocks incl. an ungraded block between; SPR sets of 24/25/26 records whose declared staker is {a top-100 PEG holder, holder #101, a non-holder} and whose signature is by {that holder's key, another key}, with duplicate payout addresses; an OPR/SPR pair outside the tolerance band before 2.0.2; factoid blocks over {1|2 inputs} x {EC outputs 0|1|2; burn address | other; amount 0 | >0} x {FCT outputs: none | one of 1 FCT | one of amount 0 | two of amount 0}, before and after 2.0. Oracle: for every address the PEG / pFCT delta of the block equals the sum of the rewards the grader LIBRARY assigns to the eligible records paying to it (eligible SPR = signed by the key of the top-100 holder it names) plus its valid burns; one coinbase history row per winner. Non-trivial = distinct (era, scenario)",
		Assumptions: []string{"the grader libraries (pegnet/modules/grader, graderStake) define winners and rewards", "S1 records carry no signature: eligibility there = the declared staker is a top-100 holder"},
		Run:         runC11,
	})
}

type c11Scenario struct {
	name   string
	class  string
	// fault: the first write of a winner row in the scenario block fails once (the block is rolled back and retried by the daemon)
	fault bool
	// subst: one raw-data answer for a record of the scenario block is another record's bytes (well-formed, wrong hash), once
	subst bool
	blocks func(b *drive.Builder, holders []int) []drive.BlockSpec // scenario blocks, built against the forked builder (prev winners tracked there)
}

// c11Rank: the wealth rank (0 = richest) of the i-th created holder. The rows are NOT created in order of wealth (37 is
// coprime to 101: a permutation), so "the 100 richest" and "the first 100 rows" are different sets.
func c11Rank(i int) int { return (i * 37) % 101 }

// c11World: funded ledger with 101 PEG holders with distinct balances (key indices 100..200), A the largest.
func c11Prefix(b *drive.Builder) {
	FundStd(b)
	if b.Next() >= b.Era.TxConv {
		var outs []kit.Out
		total := uint64(0)
		for i := 0; i < 101; i++ {
			amt := uint64(500e8 - uint64(c11Rank(i))*1e8)
			outs = append(outs, kit.Out{Addr: kit.Addr(100 + i), Amount: amt})
			total += amt
		}
		// A holds ~36000 PEG from mining (pre-2.0 payouts differ); spread what it can afford
		b.Add(drive.BlockSpec{Rates: R1(), OPRPayTo: AddrA.String()})
		b.Add(drive.BlockSpec{Rates: R1(), OPRPayTo: AddrA.String()})
		b.Add(drive.BlockSpec{Rates: R1(), OPRPayTo: AddrA.String()})
		b.Add(drive.BlockSpec{Rates: R1(), OPRPayTo: AddrA.String()})
		b.Add(drive.BlockSpec{Rates: R1(), OPRPayTo: AddrA.String()})
		b.Add(drive.BlockSpec{Rates: R1(), OPRPayTo: AddrA.String(), TX: []fake.Entry{b.Tx(KA, kit.Tx{From: AddrA, Asset: "PEG", Amount: total, To: outs})}})
	}
}

func noisy(base kit.Rates, i int) kit.Rates {
	r := append(kit.Rates{}, base...)
	for j := range r {
		// +-0.3% noise, deterministic
		d := int64((i*7+j*13)%7) - 3
		r[j] = uint64(int64(r[j]) + int64(r[j])*d/1000)
		if r[j] == 0 {
			r[j] = 1
		}
	}
	return r
}

func c11OPRs(b *drive.Builder, n int, payBase int) []fake.Entry {
	h := b.Next()
	ver := b.Era.OPRVersion(h)
	prev := b.Prev
	if len(prev) == 0 {
		if ver == 1 {
			prev = make([]string, 10)
		} else {
			prev = make([]string, 25)
		}
	}
	var out []fake.Entry
	for i := 0; i < n; i++ {
		out = append(out, kit.OPRSpec{Version: ver, Height: int32(h), Prev: prev, Rates: noisy(R1(), i), Coinbase: kit.AddrStr(payBase + i%40), ID: fmt.Sprintf("m%d", i), Nonce: []byte{byte(i), byte(i >> 8), 1}}.Entry())
	}
	return out
}

func c11Invalid(b *drive.Builder) []fake.Entry {
	h := b.Next()
	ver := b.Era.OPRVersion(h)
	prev := b.Prev
	if len(prev) == 0 {
		if ver == 1 {
			prev = make([]string, 10)
		} else {
			prev = make([]string, 25)
		}
	}
	mk := func(mod func(s *kit.OPRSpec)) fake.Entry {
		s := kit.OPRSpec{Version: ver, Height: int32(h), Prev: prev, Rates: R1(), Coinbase: kit.AddrStr(660), ID: "bad", Nonce: []byte{0xee, byte(len(prev))}}
		mod(&s)
		return s.Entry()
	}
	other := byte(ver%5 + 1)
	wrongPrev := append([]string{}, prev...)
	wrongPrev[0] = "0011223344556677"
	var out []fake.Entry
	out = append(out, mk(func(s *kit.OPRSpec) { s.VersionByte = &other; s.Nonce = []byte{0xe1} }))
	out = append(out, mk(func(s *kit.OPRSpec) { s.Height = int32(h) - 1; s.Nonce = []byte{0xe2} }))
	out = append(out, mk(func(s *kit.OPRSpec) { s.Prev = wrongPrev; s.Nonce = []byte{0xe3} }))
	out = append(out, mk(func(s *kit.OPRSpec) { s.BadDifficulty = true; s.Nonce = []byte{0xe4} }))
	// undecodable payout address (v1 does not validate it: such a record may win and its reward is dropped)
	out = append(out, mk(func(s *kit.OPRSpec) { s.Coinbase = "FA2notAnAddress"; s.Nonce = []byte{0xe5} }))
	return out
}

func c11Scenarios(era drive.Era) []c11Scenario {
	var out []c11Scenario
	W := 25
	if era.GradingV2 != 0 {
		W = 10
	}
	for _, n := range []int{0, W - 1, W, W + 1, 51} {
		n := n
		out = append(out, c11Scenario{name: fmt.Sprintf("opr/%d-valid", n), class: "opr", blocks: func(b *drive.Builder, _ []int) []drive.BlockSpec {
			return []drive.BlockSpec{{ExtraOPR: c11OPRs(b, n, 300)}}
		}})
		out = append(out, c11Scenario{name: fmt.Sprintf("opr/%d-valid+invalid", n), class: "opr", blocks: func(b *drive.Builder, _ []int) []drive.BlockSpec {
			es := c11OPRs(b, n, 300)
			inv := c11Invalid(b)
			// interleave, and add an exact duplicate of a valid record
			var mix []fake.Entry
			for i, e := range es {
				mix = append(mix, e)
				if i < len(inv) {
					mix = append(mix, inv[i])
				}
			}
			if len(es) == 0 {
				mix = append(mix, inv...)
			}
			if len(es) > 0 {
				mix = append(mix, es[0])
			}
			return []drive.BlockSpec{{ExtraOPR: mix}}
		}})
	}
	// consecutive blocks: graded, ungraded, graded (previous winners across the gap), short block between
	out = append(out, c11Scenario{name: "opr/three-consecutive", class: "opr", blocks: nil})
	out = append(out, c11Scenario{name: "opr/three-consecutive+retried-after-transient-fault", class: "opr-retried", blocks: nil, fault: true})
	out = append(out, c11Scenario{name: fmt.Sprintf("opr/%d-valid+retried-after-transient-fault", W+1), class: "opr-retried", fault: true, blocks: func(b *drive.Builder, _ []int) []drive.BlockSpec {
		return []drive.BlockSpec{{ExtraOPR: c11OPRs(b, W+1, 300)}}
	}})
	// records that share fields a payout must not be keyed on: one miner id naming different payout addresses, and one
	// payout address behind different miner ids
	out = append(out, c11Scenario{name: fmt.Sprintf("opr/%d-valid/shared-miner-ids-different-payout-addresses", W+1), class: "opr", blocks: func(b *drive.Builder, _ []int) []drive.BlockSpec {
		es := c11OPRs(b, W+1, 300)
		var out []fake.Entry
		h := b.Next()
		ver := b.Era.OPRVersion(h)
		prev := b.Prev
		if len(prev) == 0 {
			prev = make([]string, map[bool]int{true: 10, false: 25}[ver == 1])
		}
		for i := range es {
			out = append(out, kit.OPRSpec{Version: ver, Height: int32(h), Prev: prev, Rates: noisy(R1(), i), Coinbase: kit.AddrStr(300 + i), ID: fmt.Sprintf("shared%d", i%3), Nonce: []byte{byte(i), 0, 2}}.Entry())
		}
		return []drive.BlockSpec{{ExtraOPR: out}}
	}})
	for _, n := range []int{W, W + 1} {
		n := n
		out = append(out, c11Scenario{name: fmt.Sprintf("opr/%d-valid+one-record-answered-with-another-records-bytes-once", n), class: "opr-substituted-answer", subst: true, blocks: func(b *drive.Builder, _ []int) []drive.BlockSpec {
			return []drive.BlockSpec{{ExtraOPR: c11OPRs(b, n, 300)}}
		}})
	}
	if era.V20 == 0 {
		for _, n := range []int{24, 25, 26} {
			for _, who := range []string{"top-holder", "holder-101", "non-holder", "top-holder-id+1byte", "top-holder-id-31bytes", "empty-id"} {
				if n != 25 && len(who) > 10 && who != "holder-101" && who != "non-holder" {
					continue // id-shape variants: one set size
				}
				for _, sig := range []string{"own-key", "other-key"} {
					n, who, sig := n, who, sig
					if era.SprSig != 0 && sig == "other-key" {
						continue // S1 has no signature
					}
					out = append(out, c11Scenario{name: fmt.Sprintf("spr/%d/%s/%s", n, who, sig), class: "spr-" + who + "-" + sig, blocks: func(b *drive.Builder, holders []int) []drive.BlockSpec {
						return []drive.BlockSpec{{Rates: R1(), OPRPayTo: kit.AddrStr(KM), SPR: c11SPRs(b, n, who, sig, holders, false)}}
					}})
				}
			}
		}
		out = append(out, c11Scenario{name: "spr/30-with-duplicate-payout-addresses", class: "spr-top-holder-own-key", blocks: func(b *drive.Builder, holders []int) []drive.BlockSpec {
			return []drive.BlockSpec{{Rates: R1(), OPRPayTo: kit.AddrStr(KM), SPR: c11SPRs(b, 30, "top-holder", "own-key", holders, true)}}
		}})
		if era.V202 != 0 {
			out = append(out, c11Scenario{name: "band-conflict", class: "band-conflict", blocks: func(b *drive.Builder, holders []int) []drive.BlockSpec {
				s := drive.BlockSpec{Rates: R1(), OPRPayTo: kit.AddrStr(KM)}
				h := b.Next()
				k := kit.Key(KA)
				for i := 0; i < 25; i++ {
					s.SPR = append(s.SPR, kit.SPRSpec{Version: b.Era.SPRVersion(h), Height: int32(h), Rates: R1().With("EUR", 30e7), Coinbase: kit.AddrStr(700 + i), ID: "s", Staker: AddrA[:], SignWith: &k}.Entry())
				}
				s.TX = []fake.Entry{b.Tx(KA, kit.Transfer(AddrA, "pUSD", 1e8, AddrB))}
				return []drive.BlockSpec{s}
			}})
		}
	}
	return out
}

// c11SPRs builds n staking records with distinct payout addresses 700+i.
func c11SPRs(b *drive.Builder, n int, who, sig string, holders []int, dupPayout bool) []fake.Entry {
	h := b.Next()
	ver := b.Era.SPRVersion(h)
	var out []fake.Entry
	for i := 0; i < n; i++ {
		var stakerKey int
		switch who {
		case "top-holder", "top-holder-id+1byte", "top-holder-id-31bytes", "empty-id":
			stakerKey = holders[i%50] // within the top 100
		case "holder-101":
			stakerKey = holders[len(holders)-1]
		default:
			stakerKey = 990 + i%3 // holds nothing
		}
		staker := kit.Addr(stakerKey)
		signKey := stakerKey
		if sig == "other-key" {
			signKey = 980 // an outsider's key
		}
		k := kit.Key(signKey)
		pay := 700 + i
		if dupPayout {
			pay = 700 + i%27
		}
		rates := noisy(R1(), i)
		if h < b.Era.DevRewards {
			rates = R1() // the 2.0 band (0.1% / 1%) is narrower than the noise: a noisy SPR winner would be a band conflict
		}
		id := staker[:]
		switch who {
		case "top-holder-id+1byte":
			id = append(append([]byte{}, id...), 1) // not an address of anybody: its first 32 bytes are
		case "top-holder-id-31bytes":
			id = id[:31]
		case "empty-id":
			id = nil
		}
		out = append(out, kit.SPRSpec{Version: ver, Height: int32(h), Rates: rates, Coinbase: kit.AddrStr(pay), ID: fmt.Sprintf("s%d", i), Staker: id, SignWith: &k}.Entry())
	}
	return out
}

func runC11(c *core.Ctx, r *core.Result) {
	stages := []int{drive.StV1, drive.StV2, drive.StBank, drive.StV4, drive.StV20, drive.StV20Dev, drive.StV202}
	idx := 0
	for _, st := range stages {
		era := drive.EraStage(st)
		if st <= drive.StV2 {
			// rewards exist before transactions do; keep burns testable
		}
		var w *World
		var holders []int
		for _, sc := range c11Scenarios(era) {
			idx++
			if !c.Mine(idx) && c.Only == "" {
				continue
			}
			key := era.Name + "/" + sc.name
			if !c.Want(key) {
				continue
			}
			if c.Expired() {
				r.Capped("deadline before " + key)
				if w != nil {
					w.Close()
				}
				return
			}
			if w == nil {
				w = MustWorld(era, c11Prefix)
				holders = make([]int, 101) // by wealth: holders[0] the richest of them, holders[100] the poorest (holder #101 and beyond)
				for i := 0; i < 101; i++ {
					holders[c11Rank(i)] = 100 + i
				}
			}
			c11One(c, r, w, era, sc, holders, key)
		}
		// factoid blocks
		for _, pre20 := range []bool{true} {
			_ = pre20
			idx++
			if !c.Mine(idx) && c.Only == "" {
				continue
			}
			key := era.Name + "/factoid"
			if !c.Want(key) {
				continue
			}
			if w == nil {
				w = MustWorld(era, c11Prefix)
			}
			c11Factoid(c, r, w, era, key)
		}
		if w != nil {
			w.Close()
		}
	}
}

func c11One(c *core.Ctx, r *core.Result, w *World, era drive.Era, sc c11Scenario, holders []int, key string) {
	r.Eval()
	r.NonTrivial(key)
	run := w.Fork()
	defer run.Close()
	b := run.B
	type blockInfo struct {
		h     uint32
		prev  []string
		block *fake.Block
	}
	var infos []blockInfo
	addBlock := func(s drive.BlockSpec) {
		prev := append([]string{}, b.Prev...)
		h := b.Add(s)
		infos = append(infos, blockInfo{h, prev, b.Chain.Block(h)})
	}
	if sc.blocks == nil {
		W := 26
		addBlock(drive.BlockSpec{ExtraOPR: c11OPRs(b, W, 300)})
		addBlock(drive.BlockSpec{})                              // ungraded
		addBlock(drive.BlockSpec{ExtraOPR: c11OPRs(b, 5, 340)})  // graded without winners: previous winners stay
		addBlock(drive.BlockSpec{ExtraOPR: c11OPRs(b, W, 380)})  // must quote the winners of the first block
	} else {
		for _, s := range sc.blocks(b, holders) {
			addBlock(s)
		}
	}
	for _, bi := range infos {
		if out := run.SyncTo(bi.h - 1); !out.Reached {
			r.Count("inconclusive-"+outcomeClass(out), 1)
			return
		}
		run.D.Close()
		run.D = nil
		pre, err := ReadLedger(drive.DBFileOf(run.DBPath))
		if err != nil {
			panic(err)
		}
		if sc.fault {
			d := run.Open(nil)
			fired := false
			d.DB.SetHooks(&sqlw.Hooks{Before: func(op *sqlw.Op) error {
				if !fired && strings.Contains(op.SQL, "pn_winners") && op.Kind != "prepare" {
					fired = true
					return fmt.Errorf("injected transient storage failure")
				}
				return nil
			}})
		}
		opts := drive.SyncOpts{}
		if sc.subst {
			if run.D == nil {
				run.Open(nil)
			}
			nEntry := 0
			opts.OnRequest = func(rq fake.Req) fake.FaultKind {
				if rq.Kind == "entry" {
					nEntry++
					if nEntry == 3 {
						r.Count("substituted-answers-served", 1)
						return fake.FaultSubstituted
					}
				}
				return fake.NoFault
			}
			opts.FaultPending = func() bool { return nEntry < 3 }
		}
		if run.D == nil {
			run.Open(nil)
		}
		if out := run.D.SyncTo(bi.h, opts); !out.Reached {
			r.Count("inconclusive-"+outcomeClass(out), 1)
			r.Outcome("block-not-applied")
			return
		}
		run.D.Close()
		run.D = nil
		post, err := ReadLedger(drive.DBFileOf(run.DBPath))
		if err != nil {
			panic(err)
		}
		// ---- reference verdict from the grader libraries
		expect := map[string]int64{} // address hex -> PEG
		nWin := 0
		ver := era.OPRVersion(bi.h)
		if len(bi.block.OPR) > 0 {
			g, err := grader.NewGrader(ver, int32(bi.h), bi.prev)
			if err != nil {
				panic(err)
			}
			for _, e := range bi.block.OPR {
				eh := fake.EntryHash(drive.IDs.OPR, e)
				g.AddOPR(eh[:], e.ExtIDs, e.Content)
			}
			for _, wn := range g.Grade().Winners() {
				if a, err := factom.NewFAAddress(wn.OPR.GetAddress()); err == nil {
					nWin++ // a reward whose payout address cannot be decoded cannot be paid to "the address named in the record"
					expect[hex.EncodeToString(a[:])] += wn.Payout()
				}
			}
		}
		if bi.h >= era.V20 && len(bi.block.SPR) > 0 {
			sv := era.SPRVersion(bi.h)
			sg, err := graderStake.NewGrader(sv, int32(bi.h))
			if err != nil {
				panic(err)
			}
			top := topHolders(pre, 100)
			for _, e := range bi.block.SPR {
				if len(e.ExtIDs) != 3 {
					continue
				}
				staker := hex.EncodeToString(e.ExtIDs[1])
				if !top[staker] {
					continue
				}
				if sv >= 6 {
					// the record must be signed by the key of the holder it names
					if len(e.ExtIDs[2]) != 96 {
						continue
					}
					pub := ed25519.PublicKey(e.ExtIDs[2][:32])
					var fs [33]byte
					fs[0] = 1
					copy(fs[1:], pub)
					if hex.EncodeToString(sha256d(fs[:])) != staker {
						continue
					}
				}
				eh := fake.EntryHash(drive.IDs.SPR, e)
				sg.AddSPR(eh[:], e.ExtIDs, e.Content)
			}
			for _, wn := range sg.Grade().Winners() {
				nWin++
				if a, err := factom.NewFAAddress(wn.SPR.GetAddress()); err == nil {
					expect[hex.EncodeToString(a[:])] += wn.Payout()
				}
			}
		}
		// transactions in the scenario block (band-conflict scenario): a plain transfer of 1 pUSD does not move PEG
		var diffs []string
		addrs := map[string]bool{}
		for a := range pre.Balances {
			addrs[a] = true
		}
		for a := range post.Balances {
			addrs[a] = true
		}
		for a := range expect {
			addrs[a] = true
		}
		for a := range addrs {
			d := int64(post.Balances[a]["PEG"]) - int64(pre.Balances[a]["PEG"])
			if d != expect[a] {
				diffs = append(diffs, fmt.Sprintf("%s…: PEG delta %d, grader verdict %d", a[:10], d, expect[a]))
			}
		}
		sort.Strings(diffs)
		if len(diffs) > 0 {
			n := len(diffs)
			if n > 6 {
				diffs = append(diffs[:6], fmt.Sprintf("… %d addresses", n))
			}
			r.Violate(core.Violation{Key: key, Signature: "C11:rewards-differ-from-grader-verdict:" + era.Name + ":" + sc.class,
				Desc: fmt.Sprintf("height %d: PEG credited differs from the rewards the grading library assigns to the eligible records (%d winners expected)", bi.h, nWin), Detail: diffs})
		}
		// coinbase rows recorded in this block: one per winner, amounts = payouts
		rows := 0
		for eh, brs := range post.Batches {
			for _, br := range brs {
				if br.Height == bi.h {
					for _, t := range post.Txs[eh] {
						if t.Action == 3 {
							rows++
						}
					}
				}
			}
		}
		if len(diffs) == 0 && rows != nWin {
			r.Violate(core.Violation{Key: key, Signature: "C11:coinbase-rows-differ:" + era.Name + ":" + sc.class, Desc: fmt.Sprintf("height %d: %d coinbase history rows, %d winners", bi.h, rows, nWin)})
		}
		r.Outcome(fmt.Sprintf("%s:winners=%d", strings.SplitN(sc.name, "/", 2)[0], nWin))
	}
	if len(r.Samples) < 4 {
		r.Sample(map[string]interface{}{"scenario": key, "blocks": len(infos)})
	}
}

func topHolders(v *LedgerView, n int) map[string]bool {
	type hb struct {
		a string
		b uint64
	}
	var l []hb
	for a, m := range v.Balances {
		if m["PEG"] > 0 {
			l = append(l, hb{a, m["PEG"]})
		}
	}
	sort.Slice(l, func(i, j int) bool { return l[i].b > l[j].b })
	out := map[string]bool{}
	for i := 0; i < len(l) && i < n; i++ {
		out[l[i].a] = true
	}
	return out
}

func c11Factoid(c *core.Ctx, r *core.Result, w *World, era drive.Era, key string) {
	run := w.Fork()
	defer run.Close()
	b := run.B
	burn := BurnRCD()
	var other [32]byte
	other[0] = 0x77
	type tcase struct {
		tx    fake.FTx
		valid bool
		who   factom.FAAddress
		amt   uint64
		desc  string
	}
	var cases []tcase
	n := 0
	for _, nin := range []int{1, 2} {
		for _, ecs := range [][]fake.FIO{nil, {{0, burn}}, {{5, burn}}, {{0, other}}, {{0, burn}, {0, burn}}, {{0, burn}, {0, other}}} {
			for _, nout := range []int{0, 1, 2, 3} { // FCT outputs: none, one of 1 FCT, one of amount 0, two of amount 0
				n++
				k := kit.Key(500 + n)
				t := fake.FTx{SaltMs: int64(1000 + n)}
				t.Inputs = append(t.Inputs, fake.FIO{Amount: uint64(n) * 1e8, Address: k.FAAddress()})
				t.Seeds = append(t.Seeds, k)
				if nin == 2 {
					k2 := kit.Key(600 + n)
					t.Inputs = append(t.Inputs, fake.FIO{Amount: 3e8, Address: k2.FAAddress()})
					t.Seeds = append(t.Seeds, k2)
				}
				t.ECOuts = ecs
				switch nout {
				case 1:
					t.Outputs = []fake.FIO{{Amount: 1e8, Address: kit.Addr(640)}}
				case 2:
					t.Outputs = []fake.FIO{{Amount: 0, Address: kit.Addr(640)}}
				case 3:
					t.Outputs = []fake.FIO{{Amount: 0, Address: kit.Addr(640)}, {Amount: 0, Address: kit.Addr(641)}}
				}
				valid := nin == 1 && nout == 0 && len(ecs) == 1 && ecs[0].Address == burn && ecs[0].Amount == 0
				cases = append(cases, tcase{t, valid, k.FAAddress(), uint64(n) * 1e8, fmt.Sprintf("inputs=%d ec=%d outs=%d", nin, len(ecs), nout)})
			}
		}
	}
	// one address burning twice in a block (another address's burn between the two), and twice the same amount:
	// every valid burn credits its amount
	for i, spec := range []struct {
		key int
		amt uint64
	}{{590, 5e8}, {591, 3e8}, {590, 2e8}, {592, 4e8}, {592, 4e8}} {
		k := kit.Key(spec.key)
		t := fake.FTx{SaltMs: int64(5000 + i), Inputs: []fake.FIO{{Amount: spec.amt, Address: k.FAAddress()}}, Seeds: [][32]byte{k}, ECOuts: []fake.FIO{{0, burn}}}
		cases = append(cases, tcase{t, true, k.FAAddress(), spec.amt, fmt.Sprintf("repeated burner key %d burn %d", spec.key, i)})
	}
	var txs []fake.FTx
	for _, cs := range cases {
		txs = append(txs, cs.tx)
	}
	h := b.Add(drive.BlockSpec{Rates: R1(), OPRPayTo: kit.AddrStr(KM), Factoid: txs})
	b.Add(drive.BlockSpec{Rates: R1(), OPRPayTo: kit.AddrStr(KM)})
	pre, err := ReadLedger(drive.DBFileOf(w.DBPath))
	if err != nil {
		panic(err)
	}
	out := run.Sync()
	if !out.Reached {
		r.Count("inconclusive-"+outcomeClass(out), 1)
		return
	}
	run.D.Close()
	run.D = nil
	post, err := ReadLedger(drive.DBFileOf(run.DBPath))
	if err != nil {
		panic(err)
	}
	wantBy := map[factom.FAAddress]uint64{}
	for _, cs := range cases {
		if cs.valid && h < era.V20 {
			wantBy[cs.who] += cs.amt
		}
	}
	for _, cs := range cases {
		r.Eval()
		r.NonTrivial(key + "|" + cs.desc)
		want := wantBy[cs.who] // all burns of this address in the block
		got := post.Bal(cs.who, "pFCT") - pre.Bal(cs.who, "pFCT")
		if got != want {
			r.Violate(core.Violation{Key: key, Signature: "C11:burn-credit-differs:" + era.Name, Desc: fmt.Sprintf("factoid transaction (%s, valid burn=%v) at height %d credited %d pFCT, expected %d", cs.desc, cs.valid, h, got, want)})
		}
	}
	// nobody else gained pFCT
	tot := func(v *LedgerView) uint64 {
		var s uint64
		for _, m := range v.Balances {
			s += m["pFCT"]
		}
		return s
	}
	var expectTot uint64
	for _, cs := range cases {
		if cs.valid && h < era.V20 {
			expectTot += cs.amt
		}
	}
	if tot(post)-tot(pre) != expectTot {
		r.Violate(core.Violation{Key: key, Signature: "C11:pfct-supply-delta-differs:" + era.Name, Desc: fmt.Sprintf("pFCT supply changed by %d, valid burns sum to %d", tot(post)-tot(pre), expectTot)})
	}
	_ = strings.TrimSpace
}

package props

import (
	"fmt"
	"math/big"
	"sort"
	"strings"

	"github.com/Factom-Asset-Tokens/factom"
	"github.com/pegnet/pegnetd/node"

	"pegverif/core"
	"pegverif/drive"
	"pegverif/fake"
	"pegverif/kit"
	"pegverif/sqlw"
)

// C14 Holder staking payouts: snapshot minimum, proportional, capped.
func init() {
	core.Register(&core.Prop{
		ID: "C14", Level: "exploration",
		Rule: "chains through the snapshot heights 432 and 576 in the 2.0, 2.0-dev, 2.0.2 and 2.0.5 eras: a probe holder takes every combination of initial holdings {0, 10, 1000 pUSD} x {0, 5 pEUR} x {0, 50 PEG} and movement between the snapshots {none, receive, send all, send part, convert part, first funded after the first snapshot} next to two fixed holders (one tied with the probe's base case); stake totals below, exactly at, one unit above and far above the cap (by the rates quoted at the snapshot block); snapshot block graded / ungraded (fall-back rates); an asset zeroed by the tolerance band at the snapshot; a transfer inside the snapshot block itself. Oracle over ALL addresses: stake = sum over non-PEG assets of value(min(balance at 431, balance at 575)) in pUSD at the snapshot's rates; PEG delta at 576 is 0 for an address absent from either snapshot or without stake, otherwise within n units of its proportional share of the total paid; total paid <= 4500*144 PEG and == it when the total stake exceeds it; nobody's PEG moves for staking at 575 or 577. Non-trivial = distinct (era, scenario)",
		Assumptions: []string{"balances are whole units so that per-asset valuation is exact", "recorded rates (C12)", "miner and developer addresses are excluded from the comparison at the snapshot block (their other rewards are C11/C15)"},
		Run:         runC14,
	})
}

const c14Cap = uint64(4500*144) * 1e8

type c14Holder struct {
	key   int
	usd   uint64 // whole units
	eur   uint64
	peg   uint64
	xbt   uint64 // satoshi-like base units of pXBT (not whole)
	move  string // none | receive | sendall | sendpart | convert | late
}

type c14Scenario struct {
	name      string
	holders   []c14Holder
	snapRates kit.Rates // rates quoted at 576 (nil = R1)
	graded576 bool
	zeroEUR   bool // SPR band zeroes pEUR at 576 (>= 2.0.2)
	retry576  bool // the snapshot block fails once late (sync-height write) and is retried by the daemon
	// at the FIRST snapshot block the staking records put pUSD outside the tolerance band (>= 2.0.2: recorded as 0, nothing can be
	// valued, nobody is paid there) - the snapshot itself is still taken, and the next one pays by min(balance then, balance now)
	zeroUSD432 bool
}

func c14Scenarios(era drive.Era, thorough bool) []c14Scenario {
	var out []c14Scenario
	fixed := []c14Holder{{key: 21, usd: 1000, eur: 5, move: "none"}, {key: 22, usd: 300, move: "none"}}
	for _, usd := range []uint64{0, 10, 1000} {
		for _, eur := range []uint64{0, 5} {
			for _, peg := range []uint64{0, 50} {
				for _, mv := range []string{"none", "receive", "sendall", "sendpart", "convert", "late"} {
					if !thorough && peg == 50 && mv != "none" && mv != "late" {
						continue
					}
					hs := append([]c14Holder{{key: 20, usd: usd, eur: eur, peg: peg, move: mv}}, fixed...)
					out = append(out, c14Scenario{name: fmt.Sprintf("probe/usd%d-eur%d-peg%d/%s", usd, eur, peg, mv), holders: hs, graded576: true})
				}
			}
		}
	}
	// cap: holders with pXBT; the snapshot block quotes XBT so that the total stake is below / at / above the cap
	capHolders := []c14Holder{{key: 20, xbt: 3000000, move: "none"}, {key: 21, xbt: 2000000, move: "none"}, {key: 22, xbt: 1000000, usd: 7, move: "none"}, {key: 23, xbt: 1000000, usd: 7, move: "none"}}
	// total xbt = 7,000,000 base units = 0.07 pXBT; value = 0.07 * rate. other holders (A, miner...) add to the total: measured from the ledger
	for _, x := range []struct {
		n string
		r uint64
	}{{"far-below", 9000e8}, {"far-above", 2e7 * 1e8}, {"above-x3", 6e7 * 1e8}} {
		out = append(out, c14Scenario{name: "cap/" + x.n, holders: capHolders, snapRates: R1().With("XBT", x.r), graded576: true})
	}
	out = append(out, c14Scenario{name: "ungraded-snapshot-block", holders: append([]c14Holder{{key: 20, usd: 10, eur: 5, move: "sendpart"}}, fixed...), graded576: false})
	out = append(out, c14Scenario{name: "snapshot-block-retried-after-transient-fault/sendall", holders: append([]c14Holder{{key: 20, usd: 1000, eur: 5, move: "sendall"}}, fixed...), graded576: true, retry576: true})
	out = append(out, c14Scenario{name: "snapshot-block-retried-after-transient-fault/late", holders: append([]c14Holder{{key: 20, usd: 1000, move: "late"}}, fixed...), graded576: true, retry576: true})
	out = append(out, c14Scenario{name: "tie", holders: []c14Holder{{key: 20, usd: 300, move: "none"}, {key: 21, usd: 300, move: "none"}, {key: 22, usd: 300, move: "none"}}, graded576: true})
	out = append(out, c14Scenario{name: "tie-above-cap", holders: []c14Holder{{key: 20, xbt: 1000000, move: "none"}, {key: 21, xbt: 1000000, move: "none"}, {key: 22, xbt: 1000000, move: "none"}}, snapRates: R1().With("XBT", 9e7*1e8), graded576: true})
	if era.V202 == 0 {
		out = append(out, c14Scenario{name: "asset-zeroed-by-band", holders: append([]c14Holder{{key: 20, usd: 10, eur: 5, move: "none"}}, fixed...), graded576: true, zeroEUR: true})
		out = append(out, c14Scenario{name: "conversion-executing-in-the-snapshot-block", holders: append([]c14Holder{{key: 20, usd: 1000, eur: 5, move: "convert-in-snapshot-block"}}, fixed...), graded576: true})
		for _, mv := range []string{"none", "late", "sendpart"} {
			out = append(out, c14Scenario{name: "pusd-unpriced-at-first-snapshot/" + mv, holders: append([]c14Holder{{key: 20, usd: 1000, eur: 5, move: mv}}, fixed...), graded576: true, zeroUSD432: true})
		}
	}
	return out
}

func runC14(c *core.Ctx, r *core.Result) {
	if (c.Only == "" && c.Shard == 0) || strings.HasPrefix(c.Only, "all-assets/") {
		c14AllAssets(c, r)
	}
	stages := []int{drive.StV20, drive.StV20Dev, drive.StV202, drive.StPIP10, -1}
	idx := 0
	for _, st := range stages {
		var era drive.Era
		if st == -1 {
			// 2.0 itself activates ON the first snapshot height: that block already takes a snapshot, the next one pays
			era = drive.EraStage(drive.StV4)
			era.V20 = 432
			era.Name = "v4>2.0-at-the-first-snapshot-height"
		} else {
			era = drive.EraStage(st)
		}
		for si, sc := range c14Scenarios(era, c.Thorough()) {
			if st == -1 && (si%7 != 0 || sc.zeroEUR || sc.zeroUSD432 || !(strings.HasPrefix(sc.name, "probe/") || sc.name == "tie")) {
				continue // a sample of the probe scenarios is enough here: what is probed is the schedule, not the valuation
			}
			idx++
			if !c.Mine(idx) && c.Only == "" {
				continue
			}
			key := era.Name + "/" + sc.name
			if !c.Want(key) {
				continue
			}
			if c.Expired() {
				r.Capped("deadline before " + key)
				return
			}
			c14One(c, r, era, sc, key)
		}
	}
}

func c14One(c *core.Ctx, r *core.Result, era drive.Era, sc c14Scenario, key string) {
	r.Eval()
	r.NonTrivial(key)
	era.Apply()
	b := drive.NewBuilder(era)
	A := AddrA
	g := func(s drive.BlockSpec) drive.BlockSpec {
		if s.Rates == nil {
			s.Rates = R1()
		}
		if s.OPRPayTo == "" {
			s.OPRPayTo = kit.AddrStr(KM)
		}
		return s
	}
	FundStd(b) // 289..292: A holds PEG, pUSD, pEUR
	if b.Next() < era.V20 {
		// before 2.0 A's funds are pFCT (burnt FCT), not mined PEG
		b.Add(g(drive.BlockSpec{TX: []fake.Entry{b.Tx(KA, kit.Conversion(A, "pFCT", 1500e8, "pUSD"), kit.Conversion(A, "pFCT", 100e8, "pEUR"))}}))
	} else {
		b.Add(g(drive.BlockSpec{TX: []fake.Entry{b.Tx(KA, kit.Conversion(A, "PEG", 4000e8, "pXBT"), kit.Conversion(A, "PEG", 20000e8, "pUSD"), kit.Conversion(A, "PEG", 5000e8, "pEUR"))}}))
	}
	b.Add(g(drive.BlockSpec{}))
	// 295: fund the holders (not the "late" ones)
	fund := func(hs []c14Holder, late bool) []fake.Entry {
		var txs []kit.Tx
		for _, h := range hs {
			if (h.move == "late") != late {
				continue
			}
			d := kit.Addr(h.key)
			if h.usd > 0 {
				txs = append(txs, kit.Transfer(A, "pUSD", h.usd*1e8, d))
			}
			if h.eur > 0 {
				txs = append(txs, kit.Transfer(A, "pEUR", h.eur*1e8, d))
			}
			if h.peg > 0 {
				txs = append(txs, kit.Transfer(A, "PEG", h.peg*1e8, d))
			}
			if h.xbt > 0 {
				txs = append(txs, kit.Transfer(A, "pXBT", h.xbt, d))
			}
		}
		if len(txs) == 0 {
			return nil
		}
		return []fake.Entry{b.Tx(KA, txs...)}
	}
	b.Add(g(drive.BlockSpec{TX: fund(sc.holders, false)}))
	for b.Next() < 430 {
		b.AddEmpty(1)
	}
	b.Add(g(drive.BlockSpec{}))
	b.Add(g(drive.BlockSpec{})) // 431
	s432 := g(drive.BlockSpec{})
	if sc.zeroUSD432 {
		s432.SPR = sprSet(era, 432, s432.Rates.With("USD", s432.Rates[kit.AssetIndex("USD")]*10), A[:], KA, 25)
	}
	b.Add(s432) // 432 snapshot 1
	// 433: movements
	var mv []fake.Entry
	for _, h := range sc.holders {
		d := kit.Addr(h.key)
		switch h.move {
		case "receive":
			mv = append(mv, b.Tx(KA, kit.Transfer(A, "pUSD", 500e8, d)))
		case "sendall":
			if h.usd > 0 {
				mv = append(mv, b.Tx(h.key, kit.Transfer(d, "pUSD", h.usd*1e8, A)))
			}
			if h.eur > 0 {
				mv = append(mv, b.Tx(h.key, kit.Transfer(d, "pEUR", h.eur*1e8, A)))
			}
		case "sendpart":
			if h.usd > 0 {
				mv = append(mv, b.Tx(h.key, kit.Transfer(d, "pUSD", (h.usd/2)*1e8+1e8, A)))
			}
		case "convert":
			if h.usd > 0 {
				mv = append(mv, b.Tx(h.key, kit.Conversion(d, "pUSD", (h.usd/2)*1e8+1e8, "pEUR")))
			}
		}
	}
	mv = append(mv, fund(sc.holders, true)...)
	b.Add(g(drive.BlockSpec{TX: mv}))
	b.Add(g(drive.BlockSpec{})) // 434 executes conversions
	for b.Next() < 572 {
		b.AddEmpty(1)
	}
	for b.Next() < 576 {
		s := drive.BlockSpec{} // 572..575 graded: the averaging window is full
		if b.Next() == 575 {
			// a conversion entered in the last block before the snapshot executes IN the snapshot block: the snapshot holds the
			// balances of the end of block 575, before it
			for _, h := range sc.holders {
				if h.move == "convert-in-snapshot-block" && h.usd > 0 {
					s.TX = append(s.TX, b.Tx(h.key, kit.Conversion(kit.Addr(h.key), "pUSD", (h.usd/2)*1e8+1e8, "pEUR")))
				}
			}
		}
		b.Add(g(s))
	}
	// 576: snapshot 2 + payouts; a transfer inside the block must not count
	s576 := drive.BlockSpec{TX: []fake.Entry{b.Tx(KA, kit.Transfer(A, "pUSD", 100e8, kit.Addr(sc.holders[0].key)))}}
	miner576 := kit.Addr(501)
	if sc.graded576 {
		s576.Rates = sc.snapRates
		if s576.Rates == nil {
			s576.Rates = R1()
		}
		s576.OPRPayTo = miner576.String()
		if sc.zeroEUR {
			s576.SPR = sprSet(era, 576, s576.Rates.With("EUR", s576.Rates[kit.AssetIndex("EUR")]*10), A[:], KA, 25)
		}
	}
	b.Add(s576)
	b.Add(g(drive.BlockSpec{})) // 577
	dir := drive.Scratch("c14")
	run := &Run{B: b, Dir: dir, DBPath: dir + "/db"}
	defer run.Close()
	states := map[uint32]*LedgerView{}
	for _, h := range []uint32{431, 574, 575, 576, 577} {
		if h == 576 && sc.retry576 {
			d := run.Open(nil)
			fired := false
			d.DB.SetHooks(&sqlw.Hooks{Before: func(op *sqlw.Op) error {
				if !fired && strings.Contains(op.SQL, "pn_sync_version") && op.Kind != "prepare" {
					fired = true
					return fmt.Errorf("injected transient storage failure")
				}
				return nil
			}})
		}
		if out := run.SyncTo(h); !out.Reached {
			r.Count("inconclusive-"+outcomeClass(out), 1)
			r.Outcome("not-applied:" + errClass(out.LastErr+out.DiedMsg))
			return
		}
		run.D.Close()
		run.D = nil
		v, err := ReadLedger(drive.DBFileOf(run.DBPath))
		if err != nil {
			panic(err)
		}
		states[h] = v
	}
	s1, s2, post := states[431], states[575], states[576]
	if sc.zeroUSD432 && s2.Rates[432]["pUSD"] != 0 {
		panic(fmt.Sprintf("harness: C14 %s: pUSD is recorded as %d at 432, the scenario wants it unpriced", key, s2.Rates[432]["pUSD"]))
	}
	// harness self-check: the holders really hold what the scenario says at the first snapshot
	for _, h := range sc.holders {
		if h.move == "late" {
			continue
		}
		d := kit.Addr(h.key)
		if s1.Bal(d, "pUSD") != h.usd*1e8 || s1.Bal(d, "pEUR") != h.eur*1e8 || s1.Bal(d, "PEG") != h.peg*1e8 || s1.Bal(d, "pXBT") != h.xbt {
			panic(fmt.Sprintf("harness: C14 holder %d not funded as specified: %v", h.key, s1.Balances[hexAddr(d)]))
		}
	}
	excludedExtra := map[string]bool{hexAddr(miner576): true}
	for i := 0; i < 25; i++ { // SPR payout addresses of the zeroEUR scenario
		excludedExtra[hexAddr(kit.Addr(700+i))] = true
	}
	S, P, n, done := c14Oracle(r, era, key, s1, s2, post, excludedExtra)
	if done {
		return
	}
	viol := func(sig, desc string, detail ...string) {
		r.Violate(core.Violation{Key: key, Signature: "C14:" + sig + ":" + era.Name, Desc: desc, Detail: detail})
	}
	capB := new(big.Int).SetUint64(c14Cap)
	// no staking payouts outside snapshot heights
	for _, hh := range [][2]uint32{{574, 575}, {576, 577}} {
		for _, h := range sc.holders {
			d := kit.Addr(h.key)
			if states[hh[0]].Bal(d, "PEG") != states[hh[1]].Bal(d, "PEG") {
				viol("peg-moved-outside-snapshot-height", fmt.Sprintf("holder key %d: PEG changed between %d and %d", h.key, hh[0], hh[1]))
			}
		}
	}
	cls := "below-cap"
	if S.Cmp(capB) > 0 {
		cls = "above-cap"
	}
	r.Outcome(cls)
	if len(r.Samples) < 4 {
		r.Sample(map[string]interface{}{"scenario": key, "addresses_compared": n, "total_stake": S.String(), "total_paid": P})
	}
	_ = strings.TrimSpace
}

// c14Oracle checks the payouts of the snapshot block 576 for EVERY address of the ledger: stake = value at the rates used
// at 576 of min(balance at the first snapshot, balance at this one) over the non-PEG assets; payouts proportional to stake
// (+- one unit per address), never above the cap, equal to it when total stake exceeds it.
func c14Oracle(r *core.Result, era drive.Era, key string, s1, s2, post *LedgerView, excludedExtra map[string]bool) (*big.Int, int64, int64, bool) {
	// rates used for the valuation
	rates := post.Rates[576]
	if len(rates) == 0 {
		if era.V202 == 0 {
			rates = post.Rates[post.LastRatedBefore(576)]
		} else {
			r.Outcome("pre-2.0.2-ungraded-snapshot")
			return nil, 0, 0, true // C08-K2 territory: no rule given by the property either
		}
	}
	excluded := map[string]bool{}
	for k := range excludedExtra {
		excluded[k] = true
	}
	for _, dv := range node.DeveloperRewardAddreses {
		if a, err := factom.NewFAAddress(dv.DevAddress); err == nil {
			excluded[hexAddr(a)] = true
		}
	}
	type st struct {
		addr  string
		stake *big.Int
		paid  int64
	}
	var all []st
	S := new(big.Int)
	var P int64
	usd := rates["pUSD"]
	for a := range post.Balances {
		if excluded[a] {
			continue
		}
		stake := new(big.Int)
		b1, in1 := s1.Balances[a]
		b2, in2 := s2.Balances[a]
		if in1 && in2 && usd != 0 {
			for asset, v1 := range b1 {
				if asset == "PEG" {
					continue
				}
				m := v1
				if b2[asset] < m {
					m = b2[asset]
				}
				if m == 0 || rates[asset] == 0 {
					continue
				}
				val := new(big.Int).Mul(new(big.Int).SetUint64(m), new(big.Int).SetUint64(rates[asset]))
				val.Quo(val, new(big.Int).SetUint64(usd))
				stake.Add(stake, val)
			}
		}
		paid := int64(post.Balances[a]["PEG"]) - int64(s2.Balances[a]["PEG"])
		all = append(all, st{a, stake, paid})
		S.Add(S, stake)
		P += paid
	}
	sort.Slice(all, func(i, j int) bool { return all[i].addr < all[j].addr })
	n := int64(len(all))
	viol := func(sig, desc string, detail ...string) {
		r.Violate(core.Violation{Key: key, Signature: "C14:" + sig + ":" + era.Name, Desc: desc, Detail: detail})
	}
	capB := new(big.Int).SetUint64(c14Cap)
	if P > int64(c14Cap) {
		viol("cap-exceeded", fmt.Sprintf("total paid %d exceeds the cap %d", P, c14Cap))
	}
	if S.Cmp(capB) > 0 && P != int64(c14Cap) {
		viol("cap-not-paid-exactly", fmt.Sprintf("total stake %s exceeds the cap but total paid is %d, not %d", S, P, c14Cap))
	}
	if S.Sign() > 0 && P <= 0 {
		viol("nothing-paid", fmt.Sprintf("total stake %s but total paid %d", S, P))
	}
	var bad []string
	for _, x := range all {
		if x.stake.Sign() == 0 {
			if x.paid != 0 {
				bad = append(bad, fmt.Sprintf("%s…: no stake (absent from a snapshot, only PEG, or min = 0) but PEG delta %d", x.addr[:10], x.paid))
			}
			continue
		}
		// |paid*S - P*stake| <= n*S
		lhs := new(big.Int).Mul(big.NewInt(x.paid), S)
		lhs.Sub(lhs, new(big.Int).Mul(big.NewInt(P), x.stake))
		lhs.Abs(lhs)
		if lhs.Cmp(new(big.Int).Mul(big.NewInt(n), S)) > 0 {
			share := new(big.Int).Quo(new(big.Int).Mul(big.NewInt(P), x.stake), S)
			bad = append(bad, fmt.Sprintf("%s…: stake %s of %s, paid %d, proportional share of the %d paid is %s", x.addr[:10], x.stake, S, x.paid, P, share))
		}
	}
	if len(bad) > 0 {
		if len(bad) > 6 {
			bad = bad[:6]
		}
		viol("payout-not-proportional-to-min-stake", "staking payouts at 576 do not follow stake = value(min(previous snapshot, this snapshot))", bad...)
	}
	return S, P, n, false
}

// c14AllAssets: one holder per asset (61 holders with one USD worth of one asset each) next to the address that acquired all
// of them along the compressed mainnet timeline of C13: an asset the snapshot or the valuation loses shows as an unpaid holder.
func c14AllAssets(c *core.Ctx, r *core.Result) {
	key := "all-assets/one-holder-per-asset"
	if !c.Want(key) {
		return
	}
	r.Eval()
	era := c13Era()
	era.Name = "c13-timeline"
	era.Apply()
	R := kit.Addr(KR)
	rates := c13Rates()
	b := drive.NewBuilder(era)
	graded := func(s drive.BlockSpec) drive.BlockSpec {
		s.Rates = rates
		if s.OPRPayTo == "" {
			s.OPRPayTo = kit.AddrStr(KM)
		}
		return s
	}
	convAll := func(from string, lo, hi int, amt uint64) []fake.Entry {
		var out []fake.Entry
		for i := lo; i < hi; i++ {
			to := assetName(i)
			if to == from || to == "PEG" {
				continue
			}
			out = append(out, b.Tx(KR, kit.Conversion(R, from, amt, to)))
		}
		return out
	}
	for b.Next() < 330 {
		h := b.Next()
		s := drive.BlockSpec{}
		switch h {
		case 289:
			s.OPRPayTo = R.String()
			s.Factoid = []fake.FTx{kit.Burn(KR, 1e6*1e8, BurnRCD(), 77)}
		case 290:
			s.OPRPayTo = R.String()
			s.TX = convAll("pFCT", 1, 30, 1000e8)
		case 305:
			s.TX = convAll("pUSD", 30, 42, 10e8)
		case 313:
			s.TX = convAll("pUSD", 42, 62, 10e8)
		case 320:
			// one USD worth of each asset to its own holder
			var txs []kit.Tx
			for i := 1; i < 62; i++ {
				a := assetName(i)
				amt := uint64(1e16) / rates[i]
				txs = append(txs, kit.Transfer(R, a, amt, kit.Addr(1000+i)))
			}
			for lo := 0; lo < len(txs); lo += 20 {
				hi := lo + 20
				if hi > len(txs) {
					hi = len(txs)
				}
				s.TX = append(s.TX, b.Tx(KR, txs[lo:hi]...))
			}
		}
		b.Add(graded(s))
	}
	for b.Next() < 431 {
		b.AddEmpty(1)
	}
	b.Add(graded(drive.BlockSpec{}))
	b.Add(graded(drive.BlockSpec{})) // 432
	for b.Next() < 575 {
		b.AddEmpty(1)
	}
	b.Add(graded(drive.BlockSpec{}))
	miner576 := kit.Addr(501)
	b.Add(graded(drive.BlockSpec{OPRPayTo: miner576.String()})) // 576
	b.Add(graded(drive.BlockSpec{}))
	dir := drive.Scratch("c14a")
	run := &Run{B: b, Dir: dir, DBPath: dir + "/db"}
	defer run.Close()
	states := map[uint32]*LedgerView{}
	for _, h := range []uint32{431, 575, 576} {
		if out := run.SyncTo(h); !out.Reached {
			r.Count("inconclusive-"+outcomeClass(out), 1)
			return
		}
		run.D.Close()
		run.D = nil
		v, err := ReadLedger(drive.DBFileOf(run.DBPath))
		if err != nil {
			panic(err)
		}
		states[h] = v
	}
	// self-check: every holder holds its asset at the first snapshot
	held := 0
	for i := 1; i < 62; i++ {
		if states[431].Bal(kit.Addr(1000+i), assetName(i)) > 0 {
			held++
		}
	}
	if held < 55 {
		panic(fmt.Sprintf("harness: C14 all-assets: only %d of 61 holders hold their asset", held))
	}
	r.NonTrivial(key)
	r.Count("all-assets-holders-funded", held)
	S, P, n, done := c14Oracle(r, era, key, states[431], states[575], states[576], map[string]bool{hexAddr(miner576): true})
	if !done && len(r.Samples) < 5 {
		r.Sample(map[string]interface{}{"scenario": key, "addresses_compared": n, "total_stake": S.String(), "total_paid": P})
	}
}

func hexAddr(a factom.FAAddress) string { return fmt.Sprintf("%x", a[:]) }

package props

import (
	"fmt"
	"os"
	"sync"

	"pegverif/drive"
	"pegverif/fake"
)

// RacePass runs the C18 harness bodies with real, free-running goroutines (no
// cooperative scheduler: its hand-offs would be happens-before edges that blind
// the race detector). Meant to be run from a binary built with -race; the
// detector's reports go to stderr and are classified by the caller.
func RacePass(iterations int) {
	w := newC18World()
	defer os.RemoveAll(w.dir)
	methods := c18Methods()
	for it := 0; it < iterations; it++ {
		w.era.Apply()
		dir := drive.Scratch("c18r")
		drive.CopyDB(w.dir+"/start/db", dir+"/db")
		d, err := drive.Continue(dir+"/db", fake.NewNode(w.b.Chain), nil, false)
		if err != nil {
			panic(err)
		}
		w.cache.restore(d)
		api := newAPI(d)
		var wg sync.WaitGroup
		stop := make(chan struct{})
		for k := 0; k < 3; k++ {
			wg.Add(1)
			go func(k int) {
				defer wg.Done()
				for i := 0; ; i++ {
					select {
					case <-stop:
						return
					default:
					}
					m := methods[(i+k*4)%len(methods)]
					c18Call(api, m.name, m.params(w))
				}
			}(k)
		}
		out := d.SyncTo(w.tip, drive.SyncOpts{})
		close(stop)
		wg.Wait()
		d.Close()
		os.RemoveAll(dir)
		if !out.Reached {
			fmt.Fprintf(os.Stderr, "RACEPASS: sync did not reach the tip in iteration %d: %s\n", it, out)
		}
	}
	fmt.Fprintf(os.Stderr, "RACEPASS: %d iterations done\n", iterations)
}

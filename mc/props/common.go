// Package props holds one driver per property.
package props

import (
	"crypto/sha256"
	"time"
	"os"
	"strings"

	"github.com/Factom-Asset-Tokens/factom"

	"pegverif/canon"
	"pegverif/drive"
	"pegverif/fake"
	"pegverif/kit"
	"pegverif/sqlw"
)

// World is a fake chain plus a template database synced to its tip.
type World struct {
	Era    drive.Era
	B      *drive.Builder
	Dir    string
	DBPath string
	// Cache is the averaging cache of the node that synced the template when it stopped: a run that
	// restores it continues that node instead of restarting it
	Cache drive.CacheState
}

// NewWorld builds the chain with `build` and syncs a template database to its tip.
func NewWorld(era drive.Era, build func(b *drive.Builder)) (*World, error) {
	era.Apply()
	b := drive.NewBuilder(era)
	if build != nil {
		build(b)
	}
	w := &World{Era: era, B: b, Dir: drive.Scratch("world")}
	w.DBPath = w.Dir + "/db"
	d, err := drive.Open(w.DBPath, fake.NewNode(b.Chain), nil, false)
	if err != nil {
		os.RemoveAll(w.Dir)
		return nil, err
	}
	if b.Chain.Tip() > era.Base {
		out := d.SyncTo(b.Chain.Tip(), drive.SyncOpts{})
		if !out.Reached {
			d.Close()
			os.RemoveAll(w.Dir)
			return nil, &WorldError{Out: out}
		}
	}
	w.Cache = d.CacheSnapshot()
	d.Close()
	return w, nil
}

// WorldError is returned by NewWorld when the prefix chain itself cannot be synced.
type WorldError struct{ Out drive.Outcome }

func (e *WorldError) Error() string { return "world prefix did not sync: " + e.Out.String() }

// GlobalBurn is the 2.0.2 global burn address.
func GlobalBurn() factom.FAAddress {
	a, err := factom.NewFAAddress("FA2BURNBABYBURNoooooooooooooooooooooooooooooooDGvNXy")
	if err != nil {
		panic(err)
	}
	return a
}

// OldBurn is the pre-2.0.2 global burn address.
func OldBurn() factom.FAAddress {
	a, err := factom.NewFAAddress("FA1y5ZGuHSLmf2TqNf6hVMkPiNGyQpQDTFJvDLRkKQaoPo4bmbgu")
	if err != nil {
		panic(err)
	}
	return a
}

func MustWorld(era drive.Era, build func(b *drive.Builder)) *World {
	w, err := NewWorld(era, build)
	if err != nil {
		panic("harness: " + err.Error())
	}
	return w
}

func (w *World) Close() { os.RemoveAll(w.Dir) }

// Run is one scenario: a fork of the world's chain with extra blocks and a private copy of the database.
type Run struct {
	W      *World
	B      *drive.Builder
	Dir    string
	DBPath string
	D      *drive.Daemon
}

// Fork copies the template database and forks the chain.
func (w *World) Fork() *Run {
	w.Era.Apply()
	r := &Run{W: w, B: w.B.Fork(), Dir: drive.Scratch("run")}
	r.DBPath = r.Dir + "/db"
	if err := drive.CopyDB(w.DBPath, r.DBPath); err != nil {
		panic("harness: copy db: " + err.Error())
	}
	return r
}

// Open (re)starts a daemon on the run's database: a process restart.
func (r *Run) Open(hooks *sqlw.Hooks) *drive.Daemon {
	if r.D != nil {
		r.D.Close()
	}
	d, err := drive.Open(r.DBPath, fake.NewNode(r.B.Chain), hooks, false)
	if err != nil {
		panic("harness: open: " + err.Error())
	}
	r.D = d
	return d
}

// Sync opens a daemon if needed and syncs to the chain tip.
func (r *Run) Sync() drive.Outcome {
	if r.D == nil {
		r.Open(nil)
	}
	return r.D.SyncTo(r.B.Chain.Tip(), drive.SyncOpts{})
}

// SyncTo syncs to height h.
func (r *Run) SyncTo(h uint32) drive.Outcome {
	if r.D == nil {
		r.Open(nil)
	}
	return r.D.SyncTo(h, drive.SyncOpts{})
}

// Dump closes the daemon and dumps the database.
func (r *Run) Dump(o canon.Options) canon.Dump {
	if r.D != nil {
		r.D.Close()
		r.D = nil
	}
	d, err := canon.File(drive.DBFileOf(r.DBPath), o)
	if err != nil {
		panic("harness: dump: " + err.Error())
	}
	return d
}

func (r *Run) Close() {
	if r.D != nil {
		r.D.Close()
		r.D = nil
	}
	os.RemoveAll(r.Dir)
}

// ---------------------------------------------------------------- standard rates and actors

// Standard actor key indices.
const (
	KA = 1 // main spender
	KB = 2
	KC = 3
	KM = 50 // miner payout address used by funding prefixes
)

var (
	AddrA = kit.Addr(KA)
	AddrB = kit.Addr(KB)
	AddrC = kit.Addr(KC)
)

// R1, R2 are two rate vectors that give visibly different conversion results.
func R1() kit.Rates {
	return kit.FlatRates(62, 1e8).With("PEG", 2e7).With("EUR", 12e7).With("FCT", 3e8).With("XBT", 9000e8).With("JPY", 1e6)
}

func R2() kit.Rates {
	return kit.FlatRates(62, 1e8).With("PEG", 5e7).With("EUR", 11e7).With("FCT", 4e8).With("XBT", 10000e8).With("JPY", 9e5)
}

// FundStd appends a funding prefix suitable for the era: A ends up holding PEG
// (mining), pFCT (burn, only before 2.0), pUSD and pEUR (converted). Returns
// after enough graded blocks for averages to exist.
func FundStd(b *drive.Builder) {
	e := b.Era
	h := b.Next()
	pre20 := h < e.V20
	r := R1()
	A := AddrA
	// block 1: graded, pays A; burn for A
	s := drive.BlockSpec{Rates: r, OPRPayTo: A.String()}
	if pre20 {
		s.Factoid = []fake.FTx{kit.Burn(KA, 5000e8, BurnRCD(), 1)}
	}
	b.Add(s)
	// block 2: graded
	b.Add(drive.BlockSpec{Rates: r, OPRPayTo: A.String()})
	// block 3: graded; A submits conversions into pUSD, pEUR
	src := "PEG"
	if pre20 {
		src = "pFCT"
	}
	s = drive.BlockSpec{Rates: r, OPRPayTo: A.String()}
	if h+2 >= e.TxConv {
		s.TX = []fake.Entry{
			b.Tx(KA, kit.Conversion(A, src, 1000e8, "pUSD")),
			b.Tx(KA, kit.Conversion(A, src, 500e8, "pEUR")),
		}
	}
	b.Add(s)
	// block 4: graded, executes them
	b.Add(drive.BlockSpec{Rates: r, OPRPayTo: A.String()})
}

func BurnRCD() [32]byte {
	return [32]byte(factom.NewBytes32("37399721298d77984585040ea61055377039a4c3f3e2cd48c46ff643d50fd64f"))
}

// ---------------------------------------------------------------- helpers

func outcomeClass(o drive.Outcome) string {
	switch {
	case o.Died:
		return "died"
	case o.Wedged:
		return "wedged"
	case o.Reached:
		return "ok"
	}
	return "stopped"
}

// errClass reduces an error text to a stable class (hex and numbers removed).
func errClass(s string) string {
	var b strings.Builder
	for i := 0; i < len(s); i++ {
		c := s[i]
		if c >= '0' && c <= '9' {
			if b.Len() > 0 && b.String()[b.Len()-1] == '#' {
				continue
			}
			b.WriteByte('#')
			continue
		}
		b.WriteByte(c)
	}
	out := b.String()
	if len(out) > 120 {
		out = out[:120]
	}
	return out
}

func joinDiff(a, b canon.Dump) []string { return canon.Diff(a, b, 12) }

// StateTracker records a ledger hash after every committed block of a daemon.
type StateTracker struct {
	States      map[string]bool
	Transitions int
	PerHeight   map[uint32]string
}

func NewStateTracker() *StateTracker {
	return &StateTracker{States: map[string]bool{}, PerHeight: map[uint32]string{}}
}

// Hooks returns SQL hooks that hash the ledger after each COMMIT of the block transaction.
func (st *StateTracker) Hooks(dbfile string, height func() uint32) *sqlw.Hooks {
	return &sqlw.Hooks{After: func(op *sqlw.Op, err error) {
		if op.Kind != "commit" || err != nil {
			return
		}
		d, e := canon.File(dbfile, canon.Ledger)
		if e != nil {
			return
		}
		h := d.Hash()
		st.States[h] = true
		st.Transitions++
		st.PerHeight[height()] = h
	}}
}

func timeUnix(s int64) time.Time { return time.Unix(s, 0) }

func sha256d(b []byte) []byte {
	h := sha256.Sum256(b)
	h2 := sha256.Sum256(h[:])
	return h2[:]
}

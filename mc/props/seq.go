package props

import (
	"github.com/Factom-Asset-Tokens/factom"
	"github.com/pegnet/pegnet/modules/grader"
	"os"
	"encoding/hex"
	"encoding/json"
	"fmt"
	"sort"
	"strings"

	"github.com/pegnet/pegnetd/node/pegnet"

	"pegverif/core"
	"pegverif/drive"
	"pegverif/fake"
	"pegverif/kit"
)

// Sequence explorer: EVERY sequence of block events up to a depth, from a funded state, in
// several eras, on the real daemon; after EVERY block the balances of the three actors and the miner and the
// status of every submitted entry are compared with a boring reference ledger (maps) that is
// written from the property statements (C03 no overdraft / all-or-nothing, C04 conservation,
// C06 at-most-once, C07 next graded block's rates, C13 admission by height, C17 status).
//
// The same exploration backs several properties; each property reports the discrepancies whose
// class belongs to it (a discrepancy of any class is a violation of at least one of them).

type seqTx struct {
	name   string
	signer int
	txs    []kit.Tx
	dup    bool // byte-identical copy of the most recently submitted entry (if any)
	// malformed: the entry is well signed but is not a batch (outputs that sum to the input only modulo 2^64): it must be ignored altogether
	malformed bool
}

type seqEvent struct {
	name   string
	rates  kit.Rates // nil: no price records in the block (ungraded)
	weak   bool      // price records present but too few to grade: the block has a grading row and no rates
	burn   uint64    // FCT burnt by A in this block (credited as pFCT before 2.0 only)
	sprOff string    // staking records quote this asset 2.5x higher than the oracle records (from 2.0.2 on: recorded as 0)
	submit []seqTx
}

// seqFunds returns A's pUSD and pEUR after FundStd.
func seqFunds(era drive.Era) (usd, eur uint64) {
	if era.Base+1 < era.V20 {
		return 3000e8, 1250e8 // 1000 pFCT at 3.0; 500 pFCT at 3.0/1.2
	}
	return 200e8, 8333333333 // 1000 PEG at 0.2; 500 PEG at 0.2/1.2
}

func seqAlphabet(era drive.Era) []seqEvent {
	U, E := seqFunds(era)
	x := U / 10 * 6
	A, B, C := AddrA, AddrB, AddrC
	one := func(name string, signer int, txs ...kit.Tx) []seqTx { return []seqTx{{name: name, signer: signer, txs: txs}} }
	ev := []seqEvent{
		{name: "U"},
		{name: "G1", rates: R1()},
		{name: "G2", rates: R2()},
		{name: "T", rates: R1(), submit: one("A>B", KA, kit.Transfer(A, "pUSD", x, B))},
		{name: "Tr", rates: R1(), submit: one("A>B,C,B,A", KA, kit.Tx{From: A, Asset: "pUSD", Amount: U / 10 * 4, To: []kit.Out{{Addr: B, Amount: U / 10 * 2}, {Addr: C, Amount: U / 20}, {Addr: B, Amount: U / 10}, {Addr: A, Amount: U / 20}}})},
		{name: "Tz", rates: R2(), submit: one("A>0B,C,0A,B", KA, kit.Tx{From: A, Asset: "pUSD", Amount: U / 10, To: []kit.Out{{Addr: B, Amount: 0}, {Addr: C, Amount: U / 20}, {Addr: A, Amount: 0}, {Addr: B, Amount: U / 20}}})},
		{name: "Tb", rates: R2(), submit: one("B>A", KB, kit.Transfer(B, "pUSD", x, A))},
		{name: "C", rates: R1(), submit: one("A:usd>eur", KA, kit.Conversion(A, "pUSD", x, "pEUR"))},
		{name: "Cu", submit: one("A:usd>eur", KA, kit.Conversion(A, "pUSD", x, "pEUR"))},
		{name: "Cb", rates: R1(), submit: one("B:usd>jpy", KB, kit.Conversion(B, "pUSD", x/2, "pJPY"))},
		{name: "M", rates: R2(), submit: []seqTx{
			{name: "A:eur>usd", signer: KA, txs: []kit.Tx{kit.Conversion(A, "pEUR", E/2, "pUSD")}},
			{name: "A>C", signer: KA, txs: []kit.Tx{kit.Transfer(A, "pUSD", U/2, C)}}}},
		{name: "D", rates: R1(), submit: []seqTx{{name: "dup", dup: true}}},
		{name: "Du", submit: []seqTx{{name: "dup", dup: true}}},
		{name: "P", rates: R1(), submit: one("A:usd>PEG", KA, kit.Conversion(A, "pUSD", U/10*3, "PEG"))},
		{name: "K", rates: R1(), submit: one("A>A,A>B", KA, kit.Transfer(A, "pUSD", x, A), kit.Transfer(A, "pUSD", x, B))},
		{name: "K2", rates: R2(), submit: one("A>B,A>A", KA, kit.Transfer(A, "pUSD", x, B), kit.Transfer(A, "pUSD", x, A))},
		{name: "F", rates: R2(), submit: one("A:usd>fct", KA, kit.Conversion(A, "pUSD", U/10, "pFCT"))},
		{name: "S", rates: R1(), submit: one("A:usd>dcr,A:usd>eur", KA, kit.Conversion(A, "pUSD", U/10, "pDCR"), kit.Conversion(A, "pUSD", U/10, "pEUR"))},
		{name: "W", rates: R1(), weak: true, submit: one("A:usd>eur", KA, kit.Conversion(A, "pUSD", U/10, "pEUR"))},
		{name: "Bn", rates: R1(), burn: 7e8, submit: one("A:fct>usd", KA, kit.Conversion(A, "pFCT", 7e8, "pUSD"))},
		{name: "Wr", rates: R1(), submit: []seqTx{{name: "A>wrap", signer: KA, malformed: true, txs: []kit.Tx{{From: A, Asset: "pUSD", Amount: U / 10, To: []kit.Out{{Addr: B, Amount: 1<<63 - 1}, {Addr: C, Amount: 1<<63 - 1}, {Addr: B, Amount: U/10 + 2}}}}}}},
		{name: "Y", rates: R2(), submit: one("A:usd>jpy,A:eur>jpy", KA, kit.Conversion(A, "pUSD", U/10, "pJPY"), kit.Conversion(A, "pEUR", E/4, "pJPY"))},
		{name: "X", rates: R2(), submit: one("A:usd>jpy,A:jpy>B", KA, kit.Conversion(A, "pUSD", U/10, "pJPY"), kit.Transfer(A, "pJPY", U/10*50, B))},
	}
	if era.ConvLimit != drive.Never && era.V20 > era.Base+5 {
		// the PEG bank: a request of one unit next to one of ten banks: its proportional share floors to nothing, all of it is refunded
		ev = append(ev, seqEvent{name: "Pz", rates: R1(), submit: []seqTx{
			{name: "A:1usd>PEG", signer: KA, txs: []kit.Tx{kit.Conversion(A, "pUSD", 1, "PEG")}},
			{name: "A:fct>PEG", signer: KA, txs: []kit.Tx{kit.Conversion(A, "pFCT", 3000e8, "PEG")}}}})
		// a PEG request by B, who can afford it only after a transfer from A: rejected whole otherwise, no part in the bank
		// a PEG request in one batch with a conversion the height forbids (into pFCT): rejected whole, nothing is paid
		ev = append(ev, seqEvent{name: "Pf", rates: R1(), submit: one("A:usd>PEG,A:usd>fct", KA, kit.Conversion(A, "pUSD", x/4, "PEG"), kit.Conversion(A, "pUSD", x/4, "pFCT"))})
		ev = append(ev, seqEvent{name: "Pb", rates: R1(), submit: one("B:usd>PEG", KB, kit.Conversion(B, "pUSD", x/2, "PEG"))})
	}
	if era.V202 != drive.Never {
		// the staking records put pEUR outside the oracle records' tolerance band: from 2.0.2 on the block is rated, with
		// pEUR recorded as 0 (a zero inside later averaging windows; pEUR conversions executing here are rejected)
		ev = append(ev, seqEvent{name: "Z", rates: R2(), sprOff: "EUR"})
		ev = append(ev, seqEvent{name: "Zm", rates: R1(), sprOff: "EUR", submit: one("A:eur>usd", KA, kit.Conversion(A, "pEUR", E/4, "pUSD"))})
	}
	return ev
}

// ---------------------------------------------------------------- reference ledger

type refBatch struct {
	hash    string
	name    string
	txs     []kit.Tx
	height  uint32
	order   int
	hasConv bool
	isDup   bool
	malformed bool
}

type refModel struct {
	era       drive.Era
	bal       map[string]map[string]uint64
	status    map[string]int64
	reason    map[string]string
	recorded  map[string]bool
	byHash    map[string]*refBatch
	holding   []*refBatch
	lastRated uint32
	ignored   []*refBatch
	someWindowUnavailable bool // set by convert: at least one admissible averaging window has no average for the pair
	// observation of the real ledger used for the two inputs the model does not recompute:
	// recorded rates (C12 owns them) and bank yields (C16 owns them)
	unexplained []string
	decided     map[string]uint32 // entry hash -> height at which the reference decided it (executed or rejected)
}

func (m *refModel) get(a, asset string) uint64 { return m.bal[a][asset] }
func (m *refModel) add(a, asset string, v uint64) {
	if m.bal[a] == nil {
		m.bal[a] = map[string]uint64{}
	}
	m.bal[a][asset] += v
}
func (m *refModel) sub(a, asset string, v uint64) { m.bal[a][asset] -= v }

func isSmallAsset(t string) bool {
	switch t {
	case "PEG", "pDCR", "pDGB", "pDOGE", "pHBAR", "pONT", "pRVN", "pBAT", "pALGO", "pBIF", "pETB", "pKES", "pNGN", "pRWF", "pTZS", "pUGX":
		return true
	}
	return false
}

// convert returns the output of a conversion executed at height h, or ok=false if it cannot be
// computed. From PIP10 on the source is valued at min(spot, average) and the destination at
// max(spot, average); the averaging window is any admissible one (C09-K1), preferring the one that
// explains the recorded amount.
func (m *refModel) convert(v *LedgerView, h uint32, amt uint64, src, dst string, recorded int64) (uint64, bool) {
	spot := v.Rates[h]
	if h < m.era.PIP10 {
		x, ok := RefConvert(int64(amt), spot[src], spot[dst])
		return uint64(x), ok
	}
	P := m.era.AvgPeriod
	var first uint64
	have := false
	m.someWindowUnavailable = false
	for _, H := range []uint32{v.LastRatedBefore(h), h} {
		for _, w := range v.AvgWindows(H, P) {
			sa, da := v.AvgOver(src, w, P/2), v.AvgOver(dst, w, P/2)
			if sa == 0 || da == 0 {
				// under this admissible window there is no average: the conversion cannot be priced and stays pending (C17-K2)
				m.someWindowUnavailable = true
				continue
			}
			if x, ok := RefConvert(int64(amt), minU(spot[src], sa), maxU(spot[dst], da)); ok {
				if !have {
					first, have = uint64(x), true
				}
				if x == recorded {
					return uint64(x), true
				}
			}
		}
	}
	return first, have
}

func (m *refModel) note(hash string, h uint32) {
	if m.decided == nil {
		m.decided = map[string]uint32{}
	}
	if m.status[hash] != 0 {
		m.decided[hash] = h
	}
}

func hx(a [32]byte) string { return hex.EncodeToString(a[:]) }

// apply decides and applies one batch at height h. rates==nil for batches without conversions.
// Returns the status code (h, or a negative reject code, or 0 = left pending).
func (m *refModel) apply(v *LedgerView, b *refBatch, h uint32, withRates bool) (int64, string) {
	spot := v.Rates[h]
	in := hx(b.txs[0].From)
	bankEra := h >= m.era.ConvLimit && h < m.era.V20
	recTo := func(i int) int64 {
		for _, t := range v.Txs[b.hash] {
			if t.TxIndex == i {
				return t.ToAmount
			}
		}
		return -1
	}
	// admission, transaction by transaction
	for ti, t := range b.txs {
		if t.Amount > m.get(in, t.Asset) {
			return pegnet.InsufficientBalanceErrInt, "insufficient"
		}
		if t.Conv != "" {
			if !withRates {
				return 0, "conversion-without-rates"
			}
			if spot[t.Asset] == 0 || spot[t.Conv] == 0 {
				return pegnet.ZeroRatesErrorInt, "zero-rate"
			}
			if h >= m.era.OneWayFCT && t.Conv == "pFCT" {
				return pegnet.PFCTOneWayErrorInt, "one-way-pFCT"
			}
			if h >= m.era.OneWaySmall && isSmallAsset(t.Conv) {
				return pegnet.PSMALLOneWayErrorInt, "one-way-small"
			}
			// a conversion that cannot be priced leaves the whole batch pending, and that is decided here, transaction by
			// transaction, before any later transaction of the batch is looked at
			if _, ok := m.convert(v, h, t.Amount, t.Asset, t.Conv, recTo(ti)); !ok {
				return 0, "unconvertible"
			}
			if m.someWindowUnavailable {
				if rows := v.Batches[b.hash]; len(rows) == 1 && rows[0].Executed == 0 {
					return 0, "unconvertible-under-an-admissible-window"
				}
			}
		}
	}
	// the batch in sequence must never drive the spender negative
	tmp := map[string]uint64{}
	for k, x := range m.bal[in] {
		tmp[k] = x
	}
	outs := make([]uint64, len(b.txs))
	for i, t := range b.txs {
		if tmp[t.Asset] < t.Amount {
			return pegnet.InsufficientBalanceErrInt, "insufficient"
		}
		tmp[t.Asset] -= t.Amount
		if t.Conv != "" {
			x, ok := m.convert(v, h, t.Amount, t.Asset, t.Conv, recTo(i))
			if !ok {
				return 0, "unconvertible"
			}
			if m.someWindowUnavailable {
				// which averaging window applies is not fixed by the property (C09-K1); under one of them the batch is left
				// pending: if that is what the ledger shows, it is the admissible outcome
				if rows := v.Batches[b.hash]; len(rows) == 1 && rows[0].Executed == 0 {
					return 0, "unconvertible-under-an-admissible-window"
				}
			}
			outs[i] = x
			if !(bankEra && t.Conv == "PEG") {
				tmp[t.Conv] += x
			}
		} else {
			for _, o := range t.To {
				if hx(o.Addr) == in {
					tmp[t.Asset] += o.Amount
				}
			}
		}
	}
	// apply
	burn := GlobalBurn()
	for i, t := range b.txs {
		m.sub(in, t.Asset, t.Amount)
		if t.Conv != "" {
			if bankEra && t.Conv == "PEG" {
				// yield and refund as recorded (C16 checks them against the bank rule)
				for _, tr := range v.Txs[b.hash] {
					if tr.TxIndex == i {
						m.add(in, "PEG", uint64(tr.ToAmount))
						var os []struct {
							Amount int64 `json:"amount"`
						}
						if tr.Outputs != "" {
							json.Unmarshal([]byte(tr.Outputs), &os)
						}
						if len(os) == 1 {
							m.add(in, t.Asset, uint64(os[0].Amount))
						}
					}
				}
				continue
			}
			m.add(in, t.Conv, outs[i])
			if r := recTo(i); r >= 0 && uint64(r) != outs[i] {
				m.unexplained = append(m.unexplained, fmt.Sprintf("%s tx %d: recorded to_amount %d, reference %d", b.name, i, r, outs[i]))
			}
		} else {
			for _, o := range t.To {
				if o.Addr == burn && h >= m.era.V202 {
					continue
				}
				m.add(hx(o.Addr), t.Asset, o.Amount)
			}
		}
	}
	return int64(h), "executed"
}

// step applies block h.
func (m *refModel) step(v *LedgerView, h uint32, graded bool, entries []*refBatch) {
	if h < m.era.TxConv {
		return
	}
	if graded {
		var due []*refBatch
		var rest []*refBatch
		for _, b := range m.holding {
			if b.height >= m.lastRated && b.height < h {
				due = append(due, b)
			} else if b.height >= h {
				rest = append(rest, b)
			}
			// batches entered before the last rated height were considered then
		}
		sort.SliceStable(due, func(i, j int) bool {
			if due[i].height != due[j].height {
				return due[i].height < due[j].height
			}
			return due[i].order < due[j].order
		})
		for _, b := range due {
			if m.status[b.hash] != 0 {
				continue
			}
			if h >= m.era.V20 {
				peg := false
				for _, t := range b.txs {
					if t.Conv == "PEG" {
						peg = true
					}
				}
				if peg {
					m.status[b.hash], m.reason[b.hash] = -2, "peg-conversion-disabled"
					m.note(b.hash, h)
					continue
				}
			}
			m.status[b.hash], m.reason[b.hash] = m.apply(v, b, h, true)
			m.note(b.hash, h)
		}
		m.holding = rest
		m.lastRated = h
	}
	for _, b := range entries {
		if b.malformed {
			m.ignored = append(m.ignored, b)
			continue // not a batch at all: no record, no effect
		}
		if m.recorded[b.hash] {
			continue // a copy of an entry already seen is not a new entry
		}
		m.recorded[b.hash] = true
		m.byHash[b.hash] = b
		if b.hasConv {
			m.holding = append(m.holding, b)
			m.reason[b.hash] = "held"
			continue
		}
		m.status[b.hash], m.reason[b.hash] = m.apply(v, b, h, false)
		m.note(b.hash, h)
	}
}

// ---------------------------------------------------------------- exploration

type seqEra struct {
	era    drive.Era
	depth  int
	prefix func(b *drive.Builder)
	warm   bool // the root continues the node that synced the prefix (warm averaging cache) instead of restarting it
}

// seqGapPrefix: funding, one graded block, one block without price records: with a warm cache the next
// rated height is not the successor of the cached one, which sends the averaging code down its reload path
func seqGapPrefix(b *drive.Builder) {
	FundStd(b)
	b.Add(drive.BlockSpec{Rates: R2(), OPRPayTo: kit.AddrStr(KM)})
	b.AddEmpty(1)
}

// seqBoundary returns the interior era `stage` with the activations of the next stage moved to
// height Base+6 = the second block of every sequence (FundStd takes Base+1..Base+4), so that the
// sequences straddle the activation.
func seqBoundary(stage int) drive.Era {
	e := drive.EraStage(stage)
	at := e.Base + 6
	switch stage {
	case drive.StPegPrice:
		e.OneWayFCT = at
	case drive.StOneWayFCT:
		e.ConvLimit, e.FreeFloat = at, at
	case drive.StBank:
		e.V4, e.RCDe = at, at
	case drive.StV4:
		e.V20 = at
	case drive.StV20Dev:
		e.V202, e.OneWaySmall = at, at
	case drive.StV204Burn:
		e.PIP10 = at
	}
	e.Name += ">next@6"
	return e
}

// seqSnapshotPrefix funds the actors, idles to height 425 and grades 426..429: the sequences then
// cover heights 430.. across the staking snapshot / developer payout height 432.
func seqSnapshotPrefix(b *drive.Builder) { seqSnapshotPrefixTo(b, 430) }

func seqSnapshotPrefixTo(b *drive.Builder, first uint32) {
	FundStd(b)
	for b.Next() < first-4 {
		b.AddEmpty(1)
	}
	for b.Next() < first {
		b.Add(drive.BlockSpec{Rates: R1(), OPRPayTo: kit.AddrStr(KM)})
	}
}



// seqReplay runs the one sequence named by a key "seq/<era>/<e1>.<e2>...", whatever tier listed it.
func seqReplay(c *core.Ctx, r *core.Result, prop string) {
	parts := strings.SplitN(c.Only, "/", 3)
	if len(parts) != 3 {
		return
	}
	for _, pl := range append(seqPlanFor(true, ""), seqPlanFor(false, "")...) {
		if pl.era.Name != parts[1] {
			continue
		}
		alpha := seqAlphabet(pl.era)
		var seq []int
		for _, nm := range strings.Split(parts[2], ".") {
			for i, ev := range alpha {
				if ev.name == nm {
					seq = append(seq, i)
				}
			}
		}
		if len(seq) != len(strings.Split(parts[2], ".")) {
			return
		}
		w := MustWorld(pl.era, pl.prefix)
		defer w.Close()
		x := &seqX{c: c, r: r, era: pl.era, alpha: alpha, prop: prop, warm: pl.warm}
		n := x.root(w)
		for i, ei := range seq {
			nn, ok := x.step(n, ei, i == len(seq)-1)
			n.close()
			if !ok {
				return
			}
			n = nn
		}
		n.close()
		return
	}
}

func seqPlanFor(thorough bool, prop string) []seqEra {
	st := func(stage, depth int) seqEra { return seqEra{era: drive.EraStage(stage), depth: depth, prefix: FundStd} }
	bd := func(stage, depth int) seqEra { return seqEra{era: seqBoundary(stage), depth: depth, prefix: FundStd} }
	gap := func(depth int) seqEra {
		e := drive.EraStage(drive.StPIP10)
		e.Name += "-warm-after-gap"
		return seqEra{era: e, depth: depth, prefix: seqGapPrefix, warm: true}
	}
	sn := func(stage, depth int) seqEra {
		e := drive.EraStage(stage)
		e.Name += "-across-snapshot"
		return seqEra{era: e, depth: depth, prefix: seqSnapshotPrefix}
	}
	// quick: the sequences across the snapshot start at 431 so that depth 2 reaches the snapshot block 432
	eq := drive.EraStage(drive.StPIP10)
	eq.Name += "-across-snapshot-from-431"
	snq := seqEra{era: eq, depth: 2, prefix: func(b *drive.Builder) { seqSnapshotPrefixTo(b, 431) }}
	// the last two blocks before the sequences have no pEUR price: with the averaging period of 4 (2 required) a pEUR
	// conversion submitted in another such block meets a window without enough pEUR prices (average unavailable)
	ez := drive.EraStage(drive.StPIP10)
	ez.Name += "-after-two-blocks-without-eur-price"
	noeur := seqEra{era: ez, depth: 2, prefix: func(b *drive.Builder) {
		FundStd(b)
		for i := 0; i < 2; i++ {
			h := b.Next()
			rt := R1()
			b.Add(drive.BlockSpec{Rates: rt, OPRPayTo: kit.AddrStr(KM), SPR: sprSet(ez, h, rt.With("EUR", rt[kit.AssetIndex("EUR")]*5/2), AddrA[:], KA, 25)})
		}
	}}
	if !thorough {
		var extra []seqEra
		if prop == "C03" || prop == "" {
			// the per-height bank era to depth 3: a PEG request, a block without rates, the executing block
			extra = append(extra, st(drive.StBank, 3))
		}
		return append(extra, []seqEra{noeur, st(drive.StPIP10, 3), st(drive.StV4, 2), st(drive.StV202, 2), bd(drive.StV4, 2), bd(drive.StV204Burn, 2), bd(drive.StV20Dev, 2), bd(drive.StOneWayFCT, 2), snq, gap(2)}...)
	}
	// thorough: depth 3 everywhere, depth 4 in the current era and in one more era that depends on the property
	// (the six properties share the explorer; between them every listed era is covered to depth 4)
	plan := []seqEra{st(drive.StPIP10, 4), st(drive.StV202, 3), st(drive.StV4, 3), st(drive.StV20, 3), st(drive.StOneWayFCT, 3), st(drive.StBank, 3), st(drive.StPegPrice, 3),
		bd(drive.StV4, 3), bd(drive.StV20Dev, 3), bd(drive.StV204Burn, 3), bd(drive.StPegPrice, 3), bd(drive.StOneWayFCT, 3), bd(drive.StBank, 3),
		sn(drive.StPIP10, 3), sn(drive.StV202, 3), sn(drive.StV20Dev, 3), gap(4), func() seqEra { e := noeur; e.depth = 3; return e }()}
	deep := map[string]int{"C03": 2, "C04": 1, "C06": 13, "C07": 9, "C11": 5, "C13": 7, "C17": 14}
	if i, ok := deep[prop]; ok {
		plan[i].depth = 4
	} else {
		for i := range plan {
			plan[i].depth = 4 // replay look-up: every era name
		}
	}
	return plan
}

var seqProps = []string{"C03", "C04", "C06", "C07", "C11", "C13", "C17"}

const seqRule = " PLUS the sequence family: every sequence of block events (alphabet of 23, 25 from 2.0.2 on: ungraded / graded at two rate vectors, transfers A>B and B>A, a transfer naming one recipient twice and the sender itself, a transfer with zero-amount outputs around the funded ones, conversions submitted in graded and ungraded blocks, a two-entry block, byte-identical copies of the previous entry, a PEG request, a chained batch in both orders, conversions into pFCT and into a small asset, a conversion whose output the same batch spends, a batch of two conversions from different assets, a block with too few price records, an FCT burn with a pFCT conversion, a transfer whose outputs equal its input only modulo 2^64; from 2.0.2 on a block whose staking records put pEUR outside the tolerance band so that it is recorded as 0, with and without a pEUR conversion submitted in it; in the eras with a PEG bank a one-unit PEG request next to one of ten banks, and a PEG request by an address that may not be able to afford it) up to the stated depth from a funded state in several eras; after EVERY block the balances of the three actors and the miner and the status of every submitted entry are compared with a reference ledger kept in maps; this property reports the discrepancies of its class"

// files of a package are initialised in file-name order, so the drivers are registered by now
func init() {
	for _, id := range seqProps {
		id := id
		p := core.Registry[id]
		old := p.Run
		p.Rule += seqRule
		p.Level = "model_checking" // explicit-state search over the real transition function with a conformance oracle
		p.Run = func(c *core.Ctx, r *core.Result) {
			if !strings.HasPrefix(c.Only, "seq/") {
				old(c, r)
			}
			if c.Only == "" || strings.HasPrefix(c.Only, "seq/") {
				seqExplore(c, r, id)
			}
		}
	}
}

// seqExplore runs the sequence family for property prop: a depth-first search over block events in
// which a node is a clone of the running node between two blocks (copy of the database file + the
// averaging cache, the only ledger-relevant state outside the database) plus a clone of the reference ledger.
func seqExplore(c *core.Ctx, r *core.Result, prop string) {
	if c.Only != "" {
		seqReplay(c, r, prop)
		return
	}
	idx := 0
	for _, pl := range seqPlanFor(c.Thorough(), prop) {
		alpha := seqAlphabet(pl.era)
		x := &seqX{c: c, r: r, era: pl.era, alpha: alpha, prop: prop, warm: pl.warm}
		var w *World
		var root *seqNode
		// the first two levels are sharded over the worker processes
		for e1 := range alpha {
			var n1 *seqNode
			n1ok := true
			for e2 := range alpha {
				idx++
				if !c.Mine(idx) {
					continue
				}
				if c.Expired() {
					r.Capped("deadline in " + pl.era.Name)
					break
				}
				if w == nil {
					w = MustWorld(pl.era, pl.prefix)
					root = x.root(w)
				}
				if n1 == nil && n1ok {
					// the worker owning the first pair of this subtree reports the depth-1 node
					n1, n1ok = x.step(root, e1, e2 == 0)
				}
				if !n1ok {
					break
				}
				if pl.depth < 2 {
					continue
				}
				n2, ok := x.step(n1, e2, true)
				if ok {
					x.dfs(n2, pl.depth-2)
					n2.close()
				}
			}
			if n1 != nil {
				n1.close()
			}
		}
		if root != nil {
			root.close()
		}
		if w != nil {
			w.Close()
		}
		if x.tried >= 5 && x.applied == 0 {
			// not one block of this era could be applied: that is no verdict on this property, and it must not pass silently
			panic(fmt.Sprintf("harness: sequence explorer, era %s: none of %d blocks could be applied", pl.era.Name, x.tried))
		}
	}
}

type seqX struct {
	c     *core.Ctx
	r     *core.Result
	era   drive.Era
	alpha []seqEvent
	prop  string
	warm  bool
	tried, applied int
}

// seqNode is a clone of the system between two blocks.
type seqNode struct {
	b       *drive.Builder
	dir     string
	owned   bool
	cache   drive.CacheState
	m       *refModel
	last    *fake.Entry
	lastRef *refBatch
	dupSeen bool
	names   []string
}

func (n *seqNode) close() {
	if n != nil && n.owned {
		os.RemoveAll(n.dir)
	}
}

func (m *refModel) clone() *refModel {
	c := &refModel{era: m.era, bal: map[string]map[string]uint64{}, status: map[string]int64{}, reason: map[string]string{}, recorded: map[string]bool{}, byHash: map[string]*refBatch{}, lastRated: m.lastRated}
	for a, as := range m.bal {
		c.bal[a] = map[string]uint64{}
		for k, v := range as {
			c.bal[a][k] = v
		}
	}
	for k, v := range m.status {
		c.status[k] = v
	}
	for k, v := range m.reason {
		c.reason[k] = v
	}
	for k, v := range m.recorded {
		c.recorded[k] = v
	}
	for k, v := range m.byHash {
		c.byHash[k] = v
	}
	c.holding = append([]*refBatch(nil), m.holding...)
	c.ignored = append([]*refBatch(nil), m.ignored...)
	c.decided = map[string]uint32{}
	for k, v := range m.decided {
		c.decided[k] = v
	}
	return c
}

func (x *seqX) root(w *World) *seqNode {
	pre, err := ReadLedger(drive.DBFileOf(w.DBPath))
	if err != nil {
		panic("harness: " + err.Error())
	}
	m := &refModel{era: x.era, bal: map[string]map[string]uint64{}, status: map[string]int64{}, reason: map[string]string{}, recorded: map[string]bool{}, byHash: map[string]*refBatch{}}
	for a, as := range pre.Balances {
		for k, v := range as {
			m.add(a, k, v)
		}
	}
	for eh := range pre.Batches {
		m.recorded[eh] = true
	}
	m.lastRated = pre.LastRatedBefore(w.B.Next())
	// the world's template database was synced by a node that has since stopped: the root is a restarted node (cold cache)
	n := &seqNode{b: w.B, dir: w.Dir, m: m}
	if x.warm {
		n.cache = w.Cache
	}
	return n
}

func (x *seqX) dfs(n *seqNode, left int) {
	if left == 0 {
		return
	}
	for ei := range x.alpha {
		if x.c.Expired() {
			x.r.Capped("deadline in " + x.era.Name)
			return
		}
		nn, ok := x.step(n, ei, true)
		if ok {
			x.dfs(nn, left-1)
		}
		nn.close()
	}
}

// step clones node n, appends the block of event ei, lets the real node sync it, advances the
// reference ledger and compares. ok=false: a discrepancy (reported if `report`) or an inconclusive run; do not descend.
func (x *seqX) step(n *seqNode, ei int, report bool) (*seqNode, bool) {
	r, era := x.r, x.era
	ev := x.alpha[ei]
	x.era.Apply()
	nn := &seqNode{b: n.b.Fork(), dir: drive.Scratch("seq"), owned: true, m: n.m.clone(), last: n.last, lastRef: n.lastRef, dupSeen: n.dupSeen,
		names: append(append([]string{}, n.names...), ev.name)}
	if err := drive.CopyDB(n.dir+"/db", nn.dir+"/db"); err != nil {
		panic("harness: copy db: " + err.Error())
	}
	key := fmt.Sprintf("seq/%s/%s", era.Name, strings.Join(nn.names, "."))
	b, m := nn.b, nn.m
	h := b.Next()
	graded := ev.rates != nil && !ev.weak
	var entries []*refBatch
	var tx []fake.Entry
	for oi, st := range ev.submit {
		var e fake.Entry
		var rb *refBatch
		if st.dup {
			if nn.last == nil {
				continue
			}
			e = *nn.last
			cp := *nn.lastRef
			rb = &cp
			rb.isDup = true
			nn.dupSeen = true
		} else {
			e = b.Tx(st.signer, st.txs...)
			eh := fake.EntryHash(drive.IDs.TX, e)
			rb = &refBatch{hash: hex.EncodeToString(eh[:]), name: st.name, txs: st.txs, malformed: st.malformed}
			for _, t := range st.txs {
				if t.Conv != "" {
					rb.hasConv = true
				}
			}
			ec := e
			nn.last, nn.lastRef = &ec, rb
		}
		rb.height, rb.order = h, oi
		tx = append(tx, e)
		entries = append(entries, rb)
	}
	spec := drive.BlockSpec{TX: tx}
	if ev.rates != nil {
		spec.Rates = ev.rates
		spec.OPRPayTo = kit.AddrStr(KM)
		if ev.weak {
			spec.NOPR = 3
		}
	}
	if ev.sprOff != "" && h >= era.V20 {
		spec.SPR = sprSet(era, h, ev.rates.With(ev.sprOff, ev.rates[kit.AssetIndex(ev.sprOff)]*5/2), AddrA[:], KA, 25)
	}
	if ev.burn != 0 {
		spec.Factoid = []fake.FTx{kit.Burn(KA, ev.burn, BurnRCD(), int64(h))}
	}
	prevWinners := append([]string{}, b.Prev...)
	b.Add(spec)
	// a clone of the running node: no start-up code, the averaging cache carried over
	d, err := drive.Continue(nn.dir+"/db", fake.NewNode(b.Chain), nil, false)
	if err != nil {
		panic("harness: open: " + err.Error())
	}
	d.CacheRestore(n.cache)
	out := d.SyncTo(h, drive.SyncOpts{})
	nn.cache = d.CacheSnapshot()
	d.Close()
	x.tried++
	if out.Reached {
		x.applied++
	}
	if report {
		r.Eval()
	}
	if !out.Reached {
		// liveness is C08's
		if report {
			r.Count("inconclusive-"+outcomeClass(out), 1)
		}
		return nn, false
	}
	v, err := ReadLedger(drive.DBFileOf(nn.dir + "/db"))
	if err != nil {
		panic("harness: " + err.Error())
	}
	// the model is told only whether the block was graded, and that must agree with the recorded rates
	if graded != (len(v.Rates[h]) > 0) {
		if report {
			r.Count("inconclusive-grading-differs-from-plan", 1)
		}
		return nn, false
	}
	if os.Getenv("PVMC_DEBUG") != "" {
		fmt.Fprintf(os.Stderr, "DEBUG %s h=%d rates EUR=%d USD=%d PEG=%d nspr=%d\n", key, h, v.Rates[h]["pEUR"], v.Rates[h]["pUSD"], v.Rates[h]["PEG"], len(spec.SPR))
	}
	m.step(v, h, graded, entries)
	if ev.burn != 0 && h < era.V20 {
		// burns are credited after the block's transactions
		m.add(hx(AddrA), "pFCT", ev.burn)
	}
	if blk := b.Chain.Block(h); len(blk.OPR) > 0 {
		// mining rewards: the grader library's verdict on the block's records, paid to the address each winner names
		if g, err := grader.NewGrader(era.OPRVersion(h), int32(h), prevWinners); err == nil {
			for _, e := range blk.OPR {
				eh := fake.EntryHash(drive.IDs.OPR, e)
				g.AddOPR(eh[:], e.ExtIDs, e.Content)
			}
			for _, wn := range g.Grade().Winners() {
				if a, err := factom.NewFAAddress(wn.OPR.GetAddress()); err == nil {
					m.add(hx(a), "PEG", uint64(wn.Payout()))
				}
			}
		}
	}
	if report {
		r.Transitions++
	}
	actors := []string{hx(AddrA), hx(AddrB), hx(AddrC), hx(kit.Addr(KM))}
	if h >= era.V20 && h%144 == 0 {
		// holder and developer payouts: C14 / C15 own the PEG issued at a snapshot height
		for _, a := range actors {
			if y := v.Balances[a]["PEG"]; y != 0 || m.bal[a]["PEG"] != 0 {
				if m.bal[a] == nil {
					m.bal[a] = map[string]uint64{}
				}
				m.bal[a]["PEG"] = y
			}
		}
	}
	var statusDiff, balDiff []string
	tags := map[string]bool{}
	for eh, rb := range m.byHash {
		want := m.status[eh]
		var got int64
		rows := v.Batches[eh]
		if len(rows) > 0 {
			got = rows[0].Executed
		}
		if len(rows) != 1 {
			statusDiff = append(statusDiff, fmt.Sprintf("%s: recorded %d times", rb.name, len(rows)))
			tags["C06"], tags["C17"] = true, true
			continue
		}
		if got != want {
			statusDiff = append(statusDiff, fmt.Sprintf("%s (submitted at %d): status %d, reference %d (%s)", rb.name, rb.height, got, want, m.reason[eh]))
			tags["C17"] = true
			switch {
			case got > 0 && want > 0:
				tags["C07"] = true
			case (got > 0) != (want > 0) && (m.reason[eh] == "insufficient" || got == pegnet.InsufficientBalanceErrInt):
				tags["C03"] = true
			case got == 0 || want == 0:
				if rb.hasConv {
					tags["C07"] = true
				} else {
					tags["C03"] = true
				}
			default:
				tags["C13"] = true
			}
			if (got > 0) != (want > 0) && rb.hasConv && m.reason[eh] != "insufficient" {
				tags["C13"] = true
			}
		}
	}
	for _, rb := range m.ignored {
		if n := len(v.Batches[rb.hash]); n != 0 {
			statusDiff = append(statusDiff, fmt.Sprintf("%s (submitted at %d) is not a valid batch, yet it is recorded %d times with status %d", rb.name, rb.height, n, v.Batches[rb.hash][0].Executed))
			tags["C03"], tags["C17"] = true, true
		}
	}
	for _, a := range actors {
		assets := map[string]bool{}
		for k := range v.Balances[a] {
			assets[k] = true
		}
		for k := range m.bal[a] {
			assets[k] = true
		}
		for k := range assets {
			if v.Balances[a][k] != m.bal[a][k] {
				balDiff = append(balDiff, fmt.Sprintf("%s… %s: ledger %d, reference %d", a[:8], k, v.Balances[a][k], m.bal[a][k]))
				if a == hx(kit.Addr(KM)) || (ev.burn != 0 && k == "pFCT") {
					tags["C11"] = true
				}
			}
		}
	}
	if len(m.unexplained) > 0 {
		balDiff = append(balDiff, m.unexplained...)
		tags["C07"], tags["C17"] = true, true
	}
	if len(balDiff) > 0 {
		// balances moved in a block in which the reference REJECTED a batch holding a conversion for an admission reason (not
		// for lack of funds): "forbidden conversions leave all balances untouched" is C13's
		for eh, rb := range m.byHash {
			if m.decided[eh] == h && rb.hasConv && m.status[eh] < 0 && m.status[eh] != pegnet.InsufficientBalanceErrInt {
				tags["C13"] = true
			}
		}
		tags["C04"] = true
		if len(statusDiff) == 0 {
			tags["C17"] = true
			convNow, xferNow := false, false
			for eh, rb := range m.byHash {
				if m.status[eh] == int64(h) {
					if rb.hasConv {
						convNow = true
					} else {
						xferNow = true
					}
				}
			}
			if convNow {
				tags["C07"] = true
			}
			if xferNow || !convNow {
				tags["C03"] = true
			}
		}
	}
	if len(statusDiff)+len(balDiff) > 0 {
		if !report {
			return nn, false
		}
		if nn.dupSeen {
			tags["C06"] = true
		}
		var tl []string
		for t := range tags {
			tl = append(tl, t)
		}
		sort.Strings(tl)
		r.Count("seq-discrepancies-any-property", 1)
		if tags[x.prop] {
			sort.Strings(statusDiff)
			sort.Strings(balDiff)
			kind := "status"
			if len(statusDiff) == 0 {
				kind = "balance"
			} else if len(balDiff) > 0 {
				kind = "status+balance"
			}
			r.Violate(core.Violation{Key: key, Signature: fmt.Sprintf("%s:seq:%s-differs-from-reference:%s", x.prop, kind, era.Name),
				Desc:   fmt.Sprintf("era %s, block sequence %s (height %d): the ledger differs from the reference ledger [%s]", era.Name, strings.Join(nn.names, "."), h, strings.Join(tl, ",")),
				Detail: append(statusDiff, balDiff...)})
		}
		return nn, false // later blocks only repeat the first discrepancy
	}
	if report {
		r.AddState(seqCanon(m, h-era.Base))
		r.NonTrivial(key)
		r.Traces++ // the sequence up to this block ran on the real node and agreed with the reference ledger
		if len(nn.names) >= 2 && len(r.Samples) < 6 {
			r.Sample(map[string]interface{}{"block_sequence": key, "height": h, "reference_state": seqCanon(m, h-era.Base)})
		}
		var sh []string
		for eh := range m.byHash {
			s := m.status[eh]
			switch {
			case s > 0:
				sh = append(sh, "ok")
			case s < 0:
				sh = append(sh, fmt.Sprint(s))
			default:
				sh = append(sh, "pending")
			}
		}
		sort.Strings(sh)
		r.Outcome("seq-statuses:" + strings.Join(uniq(sh), ","))
	}
	return nn, true
}

func uniq(s []string) []string {
	var out []string
	for i, x := range s {
		if i == 0 || x != s[i-1] {
			out = append(out, x)
		}
	}
	return out
}

func seqCanon(m *refModel, rel uint32) string {
	var parts []string
	for _, a := range []string{hx(AddrA), hx(AddrB), hx(AddrC)} {
		var ks []string
		for k, x := range m.bal[a] {
			if x != 0 {
				ks = append(ks, fmt.Sprintf("%s=%d", k, x))
			}
		}
		sort.Strings(ks)
		parts = append(parts, strings.Join(ks, ","))
	}
	var hs []string
	for _, b := range m.holding {
		hs = append(hs, fmt.Sprintf("%s@%d", b.name, b.height))
	}
	parts = append(parts, strings.Join(hs, ","), fmt.Sprint(rel, m.lastRated))
	return strings.Join(parts, "|")
}

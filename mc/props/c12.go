package props

import (
	"encoding/json"
	"encoding/hex"
	"fmt"
	"math/big"
	"sort"
	"strings"

	"github.com/pegnet/pegnet/modules/opr"
	"github.com/pegnet/pegnetd/fat/fat2"

	"pegverif/core"
	"pegverif/drive"
	"pegverif/fake"
	"pegverif/kit"
	"pegverif/sqlw"
)

// C12 Recorded rates follow the winning records and are immutable.
func init() {
	core.Register(&core.Prop{
		ID: "C12", Level: "exploration",
		Rule: "for every pricing / band era (PEG price zero, equation with zero and non-zero supply, floating v3/v4; 2.0 1%/0.1% band, 10% band, 25% band, 2.0.5): scenario block with OPR winners {absent: no records | too few records, present} x SPR winners {absent: none | too few | ineligible staker, present}; when both are present every asset is put in a relation to the SPR quote from {equal, inside, floor(edge)-1, floor(edge), floor(edge)+1, floor(edge)+2 on the high side; the mirror on the low side; far outside}: all in-band relations spread over the assets of one block, plus one block per (representative asset, out-of-band relation); a conversion submitted in the previous block waits. Oracle: the rows recorded for the height equal the reference band filter of the winners' quotes with the PEG price of the height's phase (rows within one unit of an exact band edge accept either verdict; before 2.0.2 an out-of-band pair is a conflict for which 'no rates' is admissible); no winners => no rows and the waiting conversion does not execute in that block; after every committed block of every scenario the rows of all earlier heights are unchanged. Non-trivial = distinct (era, scenario)",
		Assumptions: []string{"the first graded record of a set of records quoting identical rates carries those rates, whatever the grading order", "equation-phase supplies are read from the database as committed at the previous height"},
		Run:         runC12,
	})
}

type c12Scenario struct {
	name    string
	oprMode string // none | few | present
	sprMode string // none | few | ineligible | present
	oprR    kit.Rates
	sprR    kit.Rates
}

// tolerance as exact fraction num/den for the height
func c12Tol(era drive.Era, h uint32, spr uint64) (int64, int64) {
	switch {
	case h >= era.V202:
		return 25, 100
	case h >= era.DevRewards:
		return 10, 100
	default:
		if spr >= 100000 {
			return 1, 1000
		}
		return 1, 100
	}
}

// c12Band: relation of o to the band around s. returns -1 outside, +1 inside, 0 undecidable (within one unit of an exact edge).
func c12Band(o, s uint64, num, den int64) int {
	// low = s*(den-num)/den, high = s*(den+num)/den ; compare o*den with s*(den±num)
	od := new(big.Int).Mul(new(big.Int).SetUint64(o), big.NewInt(den))
	lo := new(big.Int).Mul(new(big.Int).SetUint64(s), big.NewInt(den-num))
	hi := new(big.Int).Mul(new(big.Int).SetUint64(s), big.NewInt(den+num))
	unit := big.NewInt(den) // one unit of o
	near := func(a, b *big.Int) bool {
		d := new(big.Int).Sub(a, b)
		d.Abs(d)
		return d.Cmp(unit) <= 0
	}
	if near(od, lo) || near(od, hi) {
		return 0
	}
	if od.Cmp(lo) >= 0 && od.Cmp(hi) <= 0 {
		return 1
	}
	return -1
}

func runC12(c *core.Ctx, r *core.Result) {
	stages := []int{drive.StTx, drive.StPegPrice, drive.StBank, drive.StV4, drive.StV20, drive.StV20Dev, drive.StV202, drive.StPIP10}
	idx := 0
	for _, st := range stages {
		era := drive.EraStage(st)
		scs := c12Scenarios(era, c.Thorough())
		var w *World
		for _, sc := range scs {
			idx++
			if !c.Mine(idx) && c.Only == "" {
				continue
			}
			key := era.Name + "/" + sc.name
			if !c.Want(key) {
				continue
			}
			if c.Expired() {
				r.Capped("deadline before " + key)
				if w != nil {
					w.Close()
				}
				return
			}
			if w == nil {
				w = MustWorld(era, FundStd)
			}
			c12One(c, r, w, era, sc, key, false)
			// the same block applied twice by the running node: its first attempt fails at the very end (sync-height write)
			c12One(c, r, w, era, sc, key+"/scenario-block-retried", true)
		}
		if w != nil {
			w.Close()
		}
	}
	// the same scenarios with the scenario block being the FIRST block of the next rule set (the activation height itself):
	// 2.0 (staking records appear), developer rewards (1% band -> 10% band), 2.0.2 (10% -> 25% band, out-of-band asset recorded as 0)
	for _, era := range []drive.Era{seqBoundary(drive.StV4), c12DevBoundary(), seqBoundary(drive.StV20Dev)} {
		era.Name += "-is-the-scenario-block"
		var w *World
		for _, sc := range c12Scenarios(era, false) {
			idx++
			if !c.Mine(idx) && c.Only == "" {
				continue
			}
			key := era.Name + "/" + sc.name
			if !c.Want(key) {
				continue
			}
			if c.Expired() {
				r.Capped("deadline before " + key)
				if w != nil {
					w.Close()
				}
				return
			}
			if w == nil {
				w = MustWorld(era, FundStd)
			}
			c12One(c, r, w, era, sc, key, false)
		}
		if w != nil {
			w.Close()
		}
	}
	// the same scenarios with the scenario block ON a staking-snapshot height (432), where the
	// pipeline looks up fall-back rates for the holder payouts
	for _, st := range []int{drive.StV20Dev, drive.StV202, drive.StPIP10} {
		era := drive.EraStage(st)
		era.Name += "-at-snapshot-height"
		var w *World
		for _, sc := range c12Scenarios(era, false) {
			if strings.HasPrefix(sc.name, "both/") && !strings.Contains(sc.name, "spread") {
				continue
			}
			idx++
			if !c.Mine(idx) && c.Only == "" {
				continue
			}
			key := era.Name + "/" + sc.name
			if !c.Want(key) {
				continue
			}
			if c.Expired() {
				r.Capped("deadline before " + key)
				if w != nil {
					w.Close()
				}
				return
			}
			if w == nil {
				w = MustWorld(era, func(b *drive.Builder) {
					FundStd(b)
					for b.Next() < 427 {
						b.AddEmpty(1)
					}
					for b.Next() < 431 {
						b.Add(drive.BlockSpec{Rates: R1(), OPRPayTo: kit.AddrStr(KM)})
					}
				})
			}
			c12One(c, r, w, era, sc, key, false)
		}
		if w != nil {
			w.Close()
		}
	}
	// equation phase from genesis: supply zero, then non-zero
	if c.Mine(idx+1) || c.Only != "" {
		c12Genesis(c, r)
	}
}

func c12Scenarios(era drive.Era, thorough bool) []c12Scenario {
	base := R1()
	var out []c12Scenario
	h := uint32(294) // informative only: all heights of an interior era behave alike
	is2x := era.V20 == 0
	out = append(out, c12Scenario{name: "opr-present/spr-none", oprMode: "present", sprMode: "none", oprR: R2()})
	out = append(out, c12Scenario{name: "opr-none/spr-none", oprMode: "none", sprMode: "none"})
	out = append(out, c12Scenario{name: "opr-few/spr-none", oprMode: "few", sprMode: "none", oprR: R2()})
	if !is2x {
		// SPR records before 2.0 must be ignored
		out = append(out, c12Scenario{name: "opr-present/spr-present-before-2.0", oprMode: "present", sprMode: "present", oprR: R2(), sprR: base})
		out = append(out, c12Scenario{name: "opr-none/spr-present-before-2.0", oprMode: "none", sprMode: "present", sprR: base})
		return out
	}
	for _, sm := range []string{"few", "ineligible"} {
		out = append(out, c12Scenario{name: "opr-present/spr-" + sm, oprMode: "present", sprMode: sm, oprR: R2(), sprR: base})
		out = append(out, c12Scenario{name: "opr-none/spr-" + sm, oprMode: "none", sprMode: sm, sprR: base})
	}
	out = append(out, c12Scenario{name: "opr-none/spr-present", oprMode: "none", sprMode: "present", sprR: R2()})
	out = append(out, c12Scenario{name: "opr-few/spr-present", oprMode: "few", sprMode: "present", oprR: base, sprR: R2()})
	// both present: in-band relations spread over the assets
	spr := append(kit.Rates{}, base...)
	spr[kit.AssetIndex("JPY")] = 99999 // below the 0.1% threshold of the 2.0 band
	spr[kit.AssetIndex("KRW")] = 100000
	rel := func(s uint64, k int) uint64 {
		num, den := c12Tol(era, h, s)
		hiEdge := new(big.Int).Quo(new(big.Int).Mul(new(big.Int).SetUint64(s), big.NewInt(den+num)), big.NewInt(den)).Uint64()
		loEdge := new(big.Int).Quo(new(big.Int).Mul(new(big.Int).SetUint64(s), big.NewInt(den-num)), big.NewInt(den)).Uint64()
		switch k {
		case 0:
			return s
		case 1:
			return s + (hiEdge-s)/2
		case 2:
			return s - (s-loEdge)/2
		case 3:
			return hiEdge - 1
		case 4:
			return hiEdge
		case 5:
			return loEdge + 1
		case 6:
			return loEdge + 2
		case 7:
			return hiEdge + 1
		case 8:
			return hiEdge + 2
		case 9:
			return loEdge
		case 10:
			return loEdge - 1
		case 11:
			return s * 2
		case 12:
			return s / 2
		}
		return s
	}
	inband := append(kit.Rates{}, spr...)
	for i := range inband {
		inband[i] = rel(spr[i], i%7)
		if inband[i] == 0 {
			inband[i] = 1
		}
	}
	out = append(out, c12Scenario{name: "both/in-band-relations-spread-over-assets", oprMode: "present", sprMode: "present", oprR: inband, sprR: spr})
	reps := []string{"PEG", "USD", "XBT", "JPY", "KRW", "NGN"}
	if !thorough {
		reps = []string{"PEG", "XBT", "JPY", "KRW"}
	}
	for _, a := range reps {
		for k := 3; k <= 12; k++ {
			o := append(kit.Rates{}, spr...)
			ai := kit.AssetIndex(a)
			o[ai] = rel(spr[ai], k)
			if o[ai] == 0 {
				continue
			}
			out = append(out, c12Scenario{name: fmt.Sprintf("both/%s-relation%d", a, k), oprMode: "present", sprMode: "present", oprR: o, sprR: spr})
		}
	}
	if era.V202 == 0 {
		// several assets out of band at once
		o := append(kit.Rates{}, spr...)
		for i := range o {
			if i%3 == 0 {
				o[i] = rel(spr[i], 11+i%2)
			}
		}
		out = append(out, c12Scenario{name: "both/every-third-asset-far-outside", oprMode: "present", sprMode: "present", oprR: o, sprR: spr})
	}
	return out
}

func tickerName(i int) string {
	if i == 0 {
		return "PEG"
	}
	return "p" + opr.V5Assets[i]
}

// c12DevBoundary: 2.0 with the developer-reward / staking-signature activation on the scenario block (Base+6).
func c12DevBoundary() drive.Era {
	e := drive.EraStage(drive.StV20)
	e.DevRewards, e.SprSig = e.Base+6, e.Base+6
	e.Name += ">next@6"
	return e
}

func c12One(c *core.Ctx, r *core.Result, w *World, era drive.Era, sc c12Scenario, key string, retried bool) {
	r.Eval()
	r.NonTrivial(key)
	run := w.Fork()
	defer run.Close()
	b := run.B
	conv := b.Tx(KA, kit.Conversion(AddrA, "pUSD", 5e8, "pEUR"))
	b.Add(drive.BlockSpec{Rates: R1(), OPRPayTo: kit.AddrStr(KM), TX: []fake.Entry{conv}})
	h := b.Next()
	if strings.HasSuffix(era.Name, "-is-the-scenario-block") && h != era.Base+6 {
		panic(fmt.Sprintf("harness: C12 %s: the scenario block is %d, the activation %d", era.Name, h, era.Base+6))
	}
	s := drive.BlockSpec{OPRPayTo: kit.AddrStr(KM)}
	ver := era.OPRVersion(h)
	nAssets := kit.AssetCount(ver)
	switch sc.oprMode {
	case "present":
		s.Rates = sc.oprR
	case "few":
		s.Rates = sc.oprR
		s.NOPR = 9
	}
	switch sc.sprMode {
	case "present":
		s.SPR = sprSet(era, h, sc.sprR, AddrA[:], KA, 25)
	case "few":
		s.SPR = sprSet(era, h, sc.sprR, AddrA[:], KA, 24)
	case "ineligible":
		nobody := kit.Addr(77)
		s.SPR = sprSet(era, h, sc.sprR, nobody[:], 77, 25) // staker holds no PEG
	}
	b.Add(s)
	b.Add(drive.BlockSpec{Rates: R1(), OPRPayTo: kit.AddrStr(KM)})

	// immutability: after every commit the rows of earlier heights are unchanged
	d := run.Open(nil)
	prev := map[uint32]map[string]uint64{}
	immut := ""
	armed, fired := false, false
	d.DB.SetHooks(&sqlw.Hooks{Before: func(op *sqlw.Op) error {
		if retried && armed && !fired && op.Kind != "prepare" && strings.Contains(op.SQL, "pn_sync_version") {
			fired = true
			return fmt.Errorf("injected transient storage failure")
		}
		return nil
	}, After: func(op *sqlw.Op, err error) {
		if op.Kind != "commit" || err != nil {
			return
		}
		v, e := ReadLedger(d.DBFile())
		if e != nil {
			return
		}
		cur := v.Synced
		for hh, rows := range prev {
			if hh >= cur {
				continue
			}
			now := v.Rates[hh]
			if fmt.Sprint(sortedRates(now)) != fmt.Sprint(sortedRates(rows)) && immut == "" {
				immut = fmt.Sprintf("rates of height %d changed while applying height %d", hh, cur)
			}
		}
		for hh, rows := range v.Rates {
			prev[hh] = rows
		}
	}})
	if out := run.SyncTo(h - 1); !out.Reached {
		r.Count("inconclusive-"+outcomeClass(out), 1)
		return
	}
	before, err := ReadLedger(d.DBFile())
	if err != nil {
		panic(err)
	}
	armed = true
	out := run.Sync()
	if !out.Reached {
		r.Count("inconclusive-"+outcomeClass(out), 1)
		return
	}
	if retried && !fired {
		panic("harness: C12 " + key + ": the injected failure never fired")
	}
	// what the API reports for a height is what the table holds for it (get-pegnet-rates is the user's view of the rates)
	if lv, e := ReadLedger(d.DBFile()); e == nil {
		api := newAPI(d)
		for hh := h - 2; hh <= b.Chain.Tip(); hh++ {
			raw, aerr := api.call("get-pegnet-rates", map[string]interface{}{"height": hh})
			rows := lv.Rates[hh]
			var got map[string]uint64
			if aerr == nil {
				json.Unmarshal(raw, &got)
			}
			same := len(got) == len(rows)
			for k, x := range rows {
				if got[k] != x {
					same = false
				}
			}
			if !same {
				r.Violate(core.Violation{Key: key, Signature: "C12:get-pegnet-rates-differs-from-recorded-rates", Desc: fmt.Sprintf("get-pegnet-rates(height %d) returns %d rates (error %v), the table holds %d", hh, len(got), aerr, len(rows)),
					Detail: []string{fmt.Sprint(sortedRates(rows)), string(raw)}})
				break
			}
		}
	}
	d.Close()
	run.D = nil
	v, err := ReadLedger(drive.DBFileOf(run.DBPath))
	if err != nil {
		panic(err)
	}
	if immut != "" {
		r.Violate(core.Violation{Key: key, Signature: "C12:recorded-rates-changed-later", Desc: immut})
	}

	// ---- reference
	var O, S kit.Rates
	if sc.oprMode == "present" {
		O = sc.oprR
	}
	if sc.sprMode == "present" && h >= era.V20 {
		S = sc.sprR
	}
	type verdict struct {
		val       uint64
		undecided bool
	}
	want := map[string]verdict{}
	conflict := false
	conflictUndecided := false
	switch {
	case O == nil && S == nil:
		// no rows
	case h < era.V20:
		for i := 0; i < nAssets; i++ {
			name := tickerName(i)
			if ver == 1 {
				name = "p" + opr.V1Assets[i]
				if opr.V1Assets[i] == "PNT" {
					continue
				}
			}
			if i == 0 {
				continue
			}
			want[name] = verdict{val: O[i]}
		}
		// PEG by phase
		switch {
		case h < era.PEGPricing:
			want["PEG"] = verdict{val: 0}
		case h < era.FreeFloat:
			sup := before.Supply()
			num := new(big.Int)
			for name, vd := range want {
				if sv := sup[name]; sv != nil {
					num.Add(num, new(big.Int).Mul(sv, new(big.Int).SetUint64(vd.val)))
				}
			}
			pv := uint64(0)
			if ps := sup["PEG"]; ps != nil && ps.Sign() > 0 {
				pv = new(big.Int).Quo(num, ps).Uint64()
			}
			want["PEG"] = verdict{val: pv}
		default:
			want["PEG"] = verdict{val: O[0]}
		}
	case O == nil:
		for i := 0; i < 62; i++ {
			want[tickerName(i)] = verdict{val: S[i]}
		}
	case S == nil:
		for i := 0; i < 62; i++ {
			want[tickerName(i)] = verdict{val: O[i]}
		}
	default:
		for i := 0; i < 62; i++ {
			num, den := c12Tol(era, h, S[i])
			switch c12Band(O[i], S[i], num, den) {
			case 1:
				want[tickerName(i)] = verdict{val: O[i]}
			case 0:
				want[tickerName(i)] = verdict{val: O[i], undecided: true}
				if h < era.V202 {
					conflictUndecided = true
				}
			default:
				if h >= era.V202 {
					want[tickerName(i)] = verdict{val: 0}
				} else {
					conflict = true
				}
			}
		}
	}
	got := v.Rates[h]
	gotValid := map[string]uint64{}
	for tok, val := range got {
		if fat2.StringToTicker(tok) != fat2.PTickerInvalid {
			gotValid[tok] = val
		}
	}
	hasRows := len(gotValid) > 0
	expectRows := len(want) > 0 && !conflict
	var diffs []string
	switch {
	case conflict || (conflictUndecided && !hasRows):
		// before 2.0.2 an out-of-band pair is a conflict: "no rates" is admissible; rates, if recorded, must be the in-band ones
		if hasRows && conflict {
			diffs = append(diffs, "rows recorded although an asset is out of the tolerance band (pre-2.0.2 conflict)")
		}
	case !expectRows && hasRows:
		diffs = append(diffs, fmt.Sprintf("%d rows recorded for a block without winners", len(gotValid)))
	case expectRows && !hasRows:
		diffs = append(diffs, "no rows recorded although the block has winners")
	case expectRows:
		for name, vd := range want {
			if fat2.StringToTicker(name) == fat2.PTickerInvalid {
				continue
			}
			g, ok := gotValid[name]
			if !ok {
				diffs = append(diffs, fmt.Sprintf("%s: missing, expected %d", name, vd.val))
				continue
			}
			if g != vd.val {
				if vd.undecided && h >= era.V202 && g == 0 {
					continue
				}
				diffs = append(diffs, fmt.Sprintf("%s: recorded %d, expected %d", name, g, vd.val))
			}
		}
		for name := range gotValid {
			if _, ok := want[name]; !ok {
				diffs = append(diffs, fmt.Sprintf("%s: recorded %d, not expected", name, gotValid[name]))
			}
		}
	}
	sort.Strings(diffs)
	if len(diffs) > 0 {
		if len(diffs) > 8 {
			diffs = append(diffs[:8], "…")
		}
		r.Violate(core.Violation{Key: key, Signature: "C12:recorded-rates-differ:" + era.Name + ":" + strings.Split(sc.name, "/")[0] + "/" + c12Class(sc.name),
			Desc: fmt.Sprintf("rates recorded for height %d differ from the reference selection", h), Detail: diffs})
	}
	// the waiting conversion executes in h iff h has rates
	eh := fake.EntryHash(drive.IDs.TX, conv)
	rows := v.Batches[hex.EncodeToString(eh[:])]
	if len(rows) == 1 {
		ex := rows[0].Executed
		if !hasRows && ex == int64(h) {
			r.Violate(core.Violation{Key: key, Signature: "C12:conversion-executed-in-block-without-rates", Desc: fmt.Sprintf("height %d recorded no rates but the held conversion executed in it", h)})
		}
		if hasRows && ex != int64(h) && ex >= 0 {
			r.Violate(core.Violation{Key: key, Signature: "C12:conversion-not-executed-in-rated-block:" + era.Name, Desc: fmt.Sprintf("height %d recorded rates but the held conversion has status %d", h, ex)})
		}
	}
	r.Outcome(fmt.Sprintf("rows=%v", hasRows))
	if len(r.Samples) < 4 {
		r.Sample(map[string]interface{}{"scenario": key, "height": h, "rows_recorded": len(gotValid)})
	}
}

func c12Class(name string) string {
	parts := strings.Split(name, "/")
	last := parts[len(parts)-1]
	if i := strings.Index(last, "-relation"); i >= 0 {
		return "relation" + last[i+9:]
	}
	return last
}

func sortedRates(m map[string]uint64) []string {
	var out []string
	for k, v := range m {
		out = append(out, fmt.Sprintf("%s=%d", k, v))
	}
	sort.Strings(out)
	return out
}

// c12Genesis: equation pricing from an empty ledger.
func c12Genesis(c *core.Ctx, r *core.Result) {
	key := "pegprice/genesis"
	if !c.Want(key) {
		return
	}
	r.Eval()
	r.NonTrivial(key)
	era := drive.EraStage(drive.StPegPrice)
	era.Apply()
	b := drive.NewBuilder(era)
	b.Add(drive.BlockSpec{Rates: R1(), OPRPayTo: kit.AddrStr(KM), Factoid: []fake.FTx{kit.Burn(KA, 1000e8, BurnRCD(), 3)}})
	b.Add(drive.BlockSpec{Rates: R2(), OPRPayTo: kit.AddrStr(KM)})
	b.Add(drive.BlockSpec{Rates: R1(), OPRPayTo: kit.AddrStr(KM)})
	dir := drive.Scratch("c12g")
	run := &Run{B: b, Dir: dir, DBPath: dir + "/db"}
	defer run.Close()
	var views []*LedgerView
	for h := era.Base + 1; h <= b.Chain.Tip(); h++ {
		if out := run.SyncTo(h); !out.Reached {
			r.Count("inconclusive-"+outcomeClass(out), 1)
			return
		}
		run.D.Close()
		run.D = nil
		v, err := ReadLedger(drive.DBFileOf(run.DBPath))
		if err != nil {
			panic(err)
		}
		views = append(views, v)
	}
	last := views[len(views)-1]
	for i, h := 0, era.Base+1; h <= b.Chain.Tip(); i, h = i+1, h+1 {
		want := uint64(0)
		if i > 0 {
			sup := views[i-1].Supply()
			num := new(big.Int)
			for name, val := range last.Rates[h] {
				if name == "PEG" {
					continue
				}
				if sv := sup[name]; sv != nil {
					num.Add(num, new(big.Int).Mul(sv, new(big.Int).SetUint64(val)))
				}
			}
			if ps := sup["PEG"]; ps != nil && ps.Sign() > 0 {
				want = new(big.Int).Quo(num, ps).Uint64()
			}
		}
		if got := last.Rates[h]["PEG"]; got != want {
			r.Violate(core.Violation{Key: key, Signature: "C12:equation-peg-price-differs", Desc: fmt.Sprintf("height %d: PEG recorded %d, market-cap equation over the supplies at the previous height gives %d", h, got, want)})
		}
	}
}

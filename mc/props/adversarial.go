package props

import (
	"bytes"
	"encoding/binary"
	"fmt"
	"strings"

	"github.com/pegnet/pegnet/modules/opr"

	"pegverif/drive"
	"pegverif/fake"
	"pegverif/kit"
)

// Adv is one adversarial entry for one of the tracked chains.
type Adv struct {
	Chain string // "opr" | "spr" | "tx"
	Label string // unique, human readable
	Class string // coarse class used in violation signatures
	E     fake.Entry
}

func bytesOf(n int, b byte) []byte { return bytes.Repeat([]byte{b}, n) }

func extPatterns(n int) [][][]byte {
	lens := []int{0, 1, 8, 32, 33, 64, 96, 1000}
	var out [][][]byte
	if n == 0 {
		return [][][]byte{{}}
	}
	// all ext ids the same length, for every length
	for _, l := range lens {
		p := make([][]byte, n)
		for i := range p {
			p[i] = bytesOf(l, byte(0x30+i))
		}
		out = append(out, p)
	}
	// mixed: i-th ext id has the i-th length
	p := make([][]byte, n)
	for i := range p {
		p[i] = bytesOf(lens[(i+1)%len(lens)], byte(0x41+i))
	}
	out = append(out, p)
	return out
}

func protoContent(address, id string, height int32, winners [][]byte, assets []uint64) []byte {
	c := opr.V2Content{Address: address, ID: id, Height: height, Winners: winners, Assets: assets}
	b, _ := c.Marshal()
	return b
}

// advStructural: ext-id count/length matrix with a plausible content, for a chain.
func advStructural(chain string, validContent []byte) []Adv {
	var out []Adv
	for n := 0; n <= 5; n++ {
		for pi, p := range extPatterns(n) {
			for ci, content := range [][]byte{validContent, {}, {0x7b}} {
				cls := fmt.Sprintf("extids=%d", n)
				out = append(out, Adv{Chain: chain, Class: cls,
					Label: fmt.Sprintf("%s ext n=%d pat=%d content=%d", chain, n, pi, ci),
					E:     fake.Entry{ExtIDs: p, Content: content}})
			}
		}
	}
	return out
}

// advContentMutations: keeps the ext ids of a valid entry and mutates the content.
func advContentMutations(chain string, valid fake.Entry, stride int, class string) []Adv {
	var out []Adv
	add := func(label string, content []byte) {
		out = append(out, Adv{Chain: chain, Class: class, Label: chain + " " + label, E: fake.Entry{ExtIDs: valid.ExtIDs, Content: content}})
	}
	c := valid.Content
	add("content empty", nil)
	add("content 1 byte", []byte{0x0a})
	add("content 10KB zeros", bytesOf(9000, 0))
	add("content 10KB 0xff", bytesOf(9000, 0xff))
	add("content 10KB '['", bytesOf(9000, '['))
	add("content 10KB '{\"a\":'", bytes.Repeat([]byte(`{"a":`), 1800))
	for l := 0; l < len(c); l += stride {
		add(fmt.Sprintf("content truncated at %d", l), append([]byte{}, c[:l]...))
	}
	for off := 0; off < len(c); off += stride {
		for _, v := range []byte{0x00, 0x7f, 0x80, 0xff} {
			if c[off] == v {
				continue
			}
			m := append([]byte{}, c...)
			m[off] = v
			add(fmt.Sprintf("content[%d]=%02x", off, v), m)
		}
	}
	return out
}

var edgeU64 = []uint64{0, 1, 1<<63 - 1, 1 << 63, 1<<64 - 1}

// advOPRSemantic: records valid in structure with fields at their edges (not enough of them to win).
func advOPRSemantic(era drive.Era, h uint32, prev []string) []Adv {
	ver := era.OPRVersion(h)
	var out []Adv
	base := kit.OPRSpec{Version: ver, Height: int32(h), Prev: prev, Rates: R1(), Coinbase: kit.AddrStr(KM), ID: "adv", Nonce: []byte{9, 9}}
	add := func(label string, s kit.OPRSpec) {
		out = append(out, Adv{Chain: "opr", Class: "opr-semantic", Label: "opr " + label, E: s.Entry()})
	}
	for _, v := range edgeU64 {
		s := base
		s.Rates = kit.FlatRates(62, v)
		add(fmt.Sprintf("all rates=%d", v), s)
		s = base
		s.Rates = R1().With("USD", v)
		add(fmt.Sprintf("USD rate=%d", v), s)
	}
	for _, hh := range []int32{0, -1, int32(h) - 1, int32(h) + 1, 1<<31 - 1} {
		s := base
		s.Height = hh
		add(fmt.Sprintf("height=%d", hh), s)
	}
	for _, cb := range []string{"", "FA", "FA2jK2HcLnRdS94dEcU27rF3meoJfpUcZPSinpb7AwQvPRY6RL1Q", strings.Repeat("F", 200), "EC2BURNFCT2PEGNETooo1oooo1oooo1oooo1oooo1oooo19wthin"} {
		s := base
		s.Coinbase = cb
		add(fmt.Sprintf("coinbase=%q", cb), s)
	}
	for _, id := range []string{"", "a b", strings.Repeat("x", 5000), "\x00"} {
		s := base
		s.ID = id
		add(fmt.Sprintf("id len=%d", len(id)), s)
	}
	for _, pw := range [][]string{nil, make([]string, 10), make([]string, 26), {"zz"}} {
		s := base
		s.Prev = pw
		add(fmt.Sprintf("prev winners n=%d", len(pw)), s)
	}
	for _, vb := range []byte{0, 1, 2, 3, 4, 5, 6, 255} {
		s := base
		v := vb
		s.VersionByte = &v
		add(fmt.Sprintf("version byte=%d", vb), s)
	}
	for _, ac := range []int{0, 1, 29, 30, 31, 42, 61, 62, 63, 500} {
		// hand-built protobuf with a different number of assets
		content := protoContent(kit.AddrStr(KM), "adv", int32(h), nil, kit.FlatRates(ac, 1e8))
		e := base.Entry()
		e.Content = content
		out = append(out, Adv{Chain: "opr", Class: "opr-semantic", Label: fmt.Sprintf("opr assets n=%d (difficulty stale)", ac), E: e})
	}
	s := base
	s.BadDifficulty = true
	add("bad difficulty", s)
	return out
}

// advSPRSemantic: SPR records naming `staker` (a top holder) with edge fields.
func advSPRSemantic(era drive.Era, h uint32, staker []byte, signKey int) []Adv {
	ver := era.SPRVersion(h)
	var out []Adv
	k := kit.Key(signKey)
	base := kit.SPRSpec{Version: ver, Height: int32(h), Rates: R1(), Coinbase: kit.AddrStr(KM), ID: "adv", Staker: staker, SignWith: &k}
	add := func(label string, s kit.SPRSpec) {
		out = append(out, Adv{Chain: "spr", Class: "spr-semantic", Label: "spr " + label, E: s.Entry()})
	}
	for _, v := range edgeU64 {
		s := base
		s.Rates = kit.FlatRates(62, v)
		add(fmt.Sprintf("all rates=%d", v), s)
	}
	for _, hh := range []int32{0, -1, int32(h) - 1, int32(h) + 1} {
		s := base
		s.Height = hh
		add(fmt.Sprintf("height=%d", hh), s)
	}
	for _, cb := range []string{"", "FA", strings.Repeat("F", 200)} {
		s := base
		s.Coinbase = cb
		add(fmt.Sprintf("coinbase=%q", cb), s)
	}
	for _, vb := range []byte{0, 4, 5, 6, 7, 8, 255} {
		s := base
		s.Version = vb
		add(fmt.Sprintf("version byte=%d", vb), s)
	}
	s := base
	s.SignWith = nil
	add("no signature block", s)
	s = base
	s.Staker = nil
	add("empty staker id", s)
	s = base
	s.Staker = bytesOf(32, 0xee)
	add("unknown staker id", s)
	for _, ac := range []int{0, 1, 61, 63, 500} {
		c := protoContent(kit.AddrStr(KM), "adv", int32(h), nil, kit.FlatRates(ac, 1e8))
		e := base.Entry()
		e.Content = c
		out = append(out, Adv{Chain: "spr", Class: "spr-semantic", Label: fmt.Sprintf("spr assets n=%d (sig stale)", ac), E: e})
	}
	return out
}

// advTxJSON: unsigned / signed-by-A byte strings as transaction chain content.
func advTxContents() [][]byte {
	A := AddrA.String()
	B := AddrB.String()
	var out [][]byte
	add := func(s string) { out = append(out, []byte(s)) }
	tx := func(in, rest string) string { return `{"version":1,"transactions":[{"input":` + in + `,` + rest + `}]}` }
	for _, amt := range []string{"0", "1", "9223372036854775807", "9223372036854775808", "18446744073709551615", "18446744073709551616", "-1", "1.5", "1e3", `"1"`, "null", "true", "[]", "{}"} {
		add(tx(`{"address":"`+A+`","amount":`+amt+`,"type":"pUSD"}`, `"transfers":[{"address":"`+B+`","amount":`+amt+`}]`))
		add(tx(`{"address":"`+A+`","amount":`+amt+`,"type":"pUSD"}`, `"conversion":"pEUR"`))
		add(tx(`{"address":"`+A+`","amount":`+amt+`,"type":"PEG"}`, `"conversion":"pUSD"`))
	}
	// (strings at their edges: a lone escaped quote, escaped quotes around a ticker, a lone backslash escape, escapes spelling
	// a ticker, a control character, one and two bytes: whatever the hand-written ticker parser indexes or slices)
	for _, ty := range []string{`"pUSD"`, `"PEG"`, `"pXXX"`, `""`, `"p"`, `"USD"`, `1`, `null`, `"pusd"`, `"pUSD "`, `"pUSD"`,
		`"\""`, `"\"\""`, `"\"pUSD\""`, `"\\"`, `"pU\u0053D"`, `"\u0000"`, `"x"`, `"xy"`, `"\"p"`, `"p\""`} {
		add(tx(`{"address":"`+A+`","amount":5,"type":`+ty+`}`, `"transfers":[{"address":"`+B+`","amount":5}]`))
		add(tx(`{"address":"`+A+`","amount":5,"type":"pUSD"}`, `"conversion":`+ty))
	}
	for _, ad := range []string{`"` + A + `"`, `""`, `"FA"`, `"` + A[:len(A)-1] + `"`, `"FA1zT4aFpEvcnPqPCigB3fvGu4Q4mTXY22iiuV69DqE1pNhdF2MC"`, `null`, `5`, `"` + strings.Repeat("A", 5000) + `"`} {
		add(tx(`{"address":`+ad+`,"amount":5,"type":"pUSD"}`, `"transfers":[{"address":"`+B+`","amount":5}]`))
		add(tx(`{"address":"`+A+`","amount":5,"type":"pUSD"}`, `"transfers":[{"address":`+ad+`,"amount":5}]`))
	}
	add(`{"version":1,"transactions":[]}`)
	add(`{"version":1,"transactions":null}`)
	add(`{"version":1}`)
	add(`{"version":0,"transactions":[{"input":{"address":"` + A + `","amount":5,"type":"pUSD"},"conversion":"pEUR"}]}`)
	add(`{"version":1,"transactions":[{"input":{"address":"` + A + `","amount":5,"type":"pUSD"},"conversion":"pEUR","transfers":[]}]}`)
	add(`{"version":1,"transactions":[{"input":{"address":"` + A + `","amount":5,"type":"pUSD"},"transfers":[]}]}`)
	add(`{"version":1,"transactions":[{"input":{"address":"` + A + `","amount":5,"type":"pUSD"},"conversion":"pUSD"}]}`)
	add(`{"version":1,"transactions":[{"input":{"address":"` + A + `","amount":5,"type":"pUSD"},"conversion":"pEUR"}],"metadata":` + strings.Repeat("[", 2000) + strings.Repeat("]", 2000) + `}`)
	add(`[]`)
	add(`null`)
	add(`"x"`)
	add(`{}`)
	add(strings.Repeat(`{"version":1,`, 100))
	// a batch with very many transactions
	var parts []string
	for i := 0; i < 60; i++ {
		parts = append(parts, `{"input":{"address":"`+A+`","amount":1,"type":"pUSD"},"transfers":[{"address":"`+B+`","amount":1}]}`)
	}
	add(`{"version":1,"transactions":[` + strings.Join(parts, ",") + `]}`)
	return out
}

// advTx returns transaction-chain entries: every content both unsigned (no ext ids
// / garbage ext ids) and correctly signed by A with a valid salt.
func advTx(b *drive.Builder) []Adv {
	var out []Adv
	salt := b.Salt()
	for i, c := range advTxContents() {
		lab := string(c)
		if len(lab) > 70 {
			lab = lab[:70] + "…"
		}
		out = append(out, Adv{Chain: "tx", Class: "tx-content-signed", Label: fmt.Sprintf("tx#%d signed %s", i, lab),
			E: kit.SignContent(b.Chain.IDs.TX, c, salt, kit.Key(KA))})
		out = append(out, Adv{Chain: "tx", Class: "tx-content-unsigned", Label: fmt.Sprintf("tx#%d unsigned %s", i, lab),
			E: fake.Entry{ExtIDs: [][]byte{[]byte("x")}, Content: c}})
	}
	// ext id structure around a valid signed transfer
	valid := kit.SignBatch(b.Chain.IDs.TX, salt, kit.Key(KA), kit.Transfer(AddrA, "pUSD", 1, AddrB))
	saltVariants := []string{"", "abc", "-1", "0", "99999999999999999999999", fmt.Sprint(salt + 13*3600), fmt.Sprint(salt - 13*3600), " " + fmt.Sprint(salt), "+" + fmt.Sprint(salt)}
	for _, sv := range saltVariants {
		e := fake.Entry{ExtIDs: [][]byte{[]byte(sv), valid.ExtIDs[1], valid.ExtIDs[2]}, Content: valid.Content}
		out = append(out, Adv{Chain: "tx", Class: "tx-salt", Label: fmt.Sprintf("tx salt=%q", sv), E: e})
	}
	for _, rl := range []int{0, 1, 32, 33, 34, 65, 66} {
		for _, first := range []byte{0x00, 0x01, 0x0e, 0xff} {
			rcd := bytesOf(rl, 0x11)
			if rl > 0 {
				rcd[0] = first
			}
			for _, sl := range []int{0, 63, 64, 65, 66} {
				e := fake.Entry{ExtIDs: [][]byte{valid.ExtIDs[0], rcd, bytesOf(sl, 0x22)}, Content: valid.Content}
				out = append(out, Adv{Chain: "tx", Class: "tx-rcd", Label: fmt.Sprintf("tx rcd len=%d first=%02x sig len=%d", rl, first, sl), E: e})
			}
		}
	}
	for _, a := range advStructural("tx", valid.Content) {
		out = append(out, a)
	}
	return out
}

func u32(v uint32) []byte {
	var b [4]byte
	binary.BigEndian.PutUint32(b[:], v)
	return b[:]
}

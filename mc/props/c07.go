package props

import (
	"pegverif/sqlw"
	sqlite3 "github.com/mattn/go-sqlite3"
	"encoding/hex"
	"fmt"
	"math/big"
	"strings"

	"github.com/pegnet/pegnetd/config"
	"github.com/pegnet/pegnetd/node/conversions"

	"pegverif/core"
	"pegverif/drive"
	"pegverif/fake"
	"pegverif/kit"
)

// C07 Conversions execute later, at the next graded block's rates, exactly.
func init() {
	core.Register(&core.Prop{
		ID: "C07", Level: "exploration",
		Rule: "(a) arithmetic on the real conversions.Convert: full product of amounts {0,1,2,1e8-1,1e8,2^31,2^62+1,2^63-1} x source/destination spot and average rates from {1,2,1e8-1,1e8,1e8+1,2^40,2^63-1,2^64-1} (plus 0) x {before, at, after the averaging activation}, against floor(in*src/dst) in exact arithmetic with src=min(spot,avg), dst=max(spot,avg) once averaging is active, overflow => error, and out*dstSpot <= in*srcSpot. (b) pipeline: a conversion submitted in a graded or ungraded block followed by every pattern over {G(r1),G(r2),U}^k, for 5 asset pairs in 7 eras with AveragePeriod 4: it must execute in the first later graded block (never its own), never while no later block is graded, and credit the reference amount at that block's recorded rates (averages over any admissible window); balances move by exactly that. Non-trivial = distinct (era, pair, pattern) whose conversion executed, or distinct argument tuple with a non-error result",
		Assumptions: []string{"recorded rates are taken from the database (their correctness is C12's)", "admissible averaging windows: last n rated heights, n between the height-window count and the period (C09 owns the ambiguity)"},
		Run:         runC07,
	})
}

func runC07(c *core.Ctx, r *core.Result) {
	drive.Setup()
	c07Arithmetic(c, r)
	c07Pipeline(c, r)
}

func c07Arithmetic(c *core.Ctx, r *core.Result) {
	amounts := []int64{0, 1, 2, 1e8 - 1, 1e8, 1 << 31, 1<<62 + 1, 1<<63 - 1, -1}
	rates := []uint64{0, 1, 2, 1e8 - 1, 1e8, 1e8 + 1, 1 << 40, 1<<63 - 1, 1<<64 - 1}
	act := uint32(1000)
	config.PIP10AverageActivation = act
	idx := 0
	for _, h := range []uint32{act - 1, act, act + 1} {
		active := h >= act
		for _, in := range amounts {
			for _, fs := range rates {
				for _, fa := range rates {
					if !active && fa != rates[1] && fa != rates[len(rates)-1] && fa != 0 {
						continue // averages are irrelevant before activation: three representatives suffice
					}
					for _, ts := range rates {
						for _, ta := range rates {
							if !active && ta != rates[1] && ta != rates[len(rates)-1] && ta != 0 {
								continue
							}
							idx++
							if !c.Mine(idx) && c.Only == "" {
								continue
							}
							key := fmt.Sprintf("convert/h%d/in%d/%d,%d,%d,%d", h, in, fs, fa, ts, ta)
							if !c.Want(key) {
								continue
							}
							r.Eval()
							got, err := conversions.Convert(h, in, fs, fa, ts, ta)
							src, dst := fs, ts
							valid := in >= 0 && fs != 0 && ts != 0
							if active {
								valid = valid && fa != 0 && ta != 0
								src, dst = minU(fs, fa), maxU(ts, ta)
							}
							want, fits := int64(0), false
							if valid {
								want, fits = RefConvert(in, src, dst)
							}
							if !valid || !fits {
								if err == nil {
									r.Violate(core.Violation{Key: key, Signature: "C07:convert-accepts-invalid-or-overflowing-input", Desc: fmt.Sprintf("Convert(%d, %d, %d,%d,%d,%d) = %d without error", h, in, fs, fa, ts, ta, got)})
								}
								continue
							}
							r.NonTrivial(key)
							if err != nil {
								r.Violate(core.Violation{Key: key, Signature: "C07:convert-rejects-valid-input", Desc: fmt.Sprintf("Convert(%d, %d, %d,%d,%d,%d): %v; exact result %d", h, in, fs, fa, ts, ta, err, want)})
								continue
							}
							if got != want {
								r.Violate(core.Violation{Key: key, Signature: "C07:convert-amount-differs", Desc: fmt.Sprintf("Convert(%d, %d, %d,%d,%d,%d) = %d, floor(in*src/dst) = %d", h, in, fs, fa, ts, ta, got, want)})
								continue
							}
							// value never increases at spot rates
							lhs := new(big.Int).Mul(big.NewInt(got), new(big.Int).SetUint64(ts))
							rhs := new(big.Int).Mul(big.NewInt(in), new(big.Int).SetUint64(fs))
							if lhs.Cmp(rhs) > 0 {
								r.Violate(core.Violation{Key: key, Signature: "C07:conversion-increases-usd-value", Desc: fmt.Sprintf("Convert(%d, %d, %d,%d,%d,%d) = %d is worth more than the input at spot rates", h, in, fs, fa, ts, ta, got)})
							}
						}
					}
				}
			}
		}
	}
	r.Sample(map[string]interface{}{"arithmetic_example": "Convert(h=1001, in=2^62+1, fromSpot=1e8+1, fromAvg=1e8, toSpot=2, toAvg=2^40)"})
}

type c07Pair struct{ from, to string }

func c07Pipeline(c *core.Ctx, r *core.Result) {
	k := 3
	if c.Thorough() {
		k = 4
	}
	stages := []int{drive.StTx, drive.StPegPrice, drive.StOneWayFCT, drive.StV4, drive.StV20, drive.StV202, drive.StPIP10}
	idx := 0
	for _, st := range stages {
		era := drive.EraStage(st)
		pairs := []c07Pair{{"pUSD", "pEUR"}, {"pEUR", "pUSD"}, {"pUSD", "pXBT"}}
		if st >= drive.StPegPrice {
			pairs = append(pairs, c07Pair{"PEG", "pUSD"})
		}
		if st < drive.StV20 {
			pairs = append(pairs, c07Pair{"pFCT", "pUSD"})
		}
		if st >= drive.StPegPrice && st < drive.StBank {
			pairs = append(pairs, c07Pair{"pUSD", "PEG"})
		}
		var w *World
		for _, pair := range pairs {
			for h0 := 0; h0 < 2; h0++ { // submission block graded (with R2) or ungraded
				np := 1
				for i := 0; i < k; i++ {
					np *= 3
				}
				for pat := 0; pat < np; pat++ {
					idx++
					if !c.Mine(idx) && c.Only == "" {
						continue
					}
					ps := ""
					for i, x := 0, pat; i < k; i, x = i+1, x/3 {
						ps += string("12U"[x%3])
					}
					key := fmt.Sprintf("pipeline/%s/%s>%s/sub%s/%s", era.Name, pair.from, pair.to, map[int]string{0: "G", 1: "U"}[h0], ps)
					if !c.Want(key) {
						continue
					}
					if c.Expired() {
						r.Capped("deadline before " + key)
						if w != nil {
							w.Close()
						}
						return
					}
					if w == nil {
						w = MustWorld(era, FundStd)
					}
					c07One(c, r, w, era, pair, h0 == 0, ps, key, false)
					if strings.ContainsAny(ps, "12") {
						// the same chain with the executing block failing once, late, and retried by the same process
						c07One(c, r, w, era, pair, h0 == 0, ps, key+"/executing-block-retried", true)
					}
				}
			}
		}
		if w != nil {
			w.Close()
		}
	}
	// family "snapshot": the same patterns placed across a staking-snapshot height (432) in the 2.x eras:
	// submission block 431, then 432 (snapshot), 433, 434
	for _, st := range []int{drive.StV20Dev, drive.StV202, drive.StPIP10} {
		era := drive.EraStage(st)
		era.Name += "-across-snapshot"
		var w *World
		for _, pair := range []c07Pair{{"pUSD", "pEUR"}, {"PEG", "pUSD"}} {
			for h0 := 0; h0 < 2; h0++ {
				for pat := 0; pat < 27; pat++ {
					idx++
					if !c.Mine(idx) && c.Only == "" {
						continue
					}
					ps := ""
					for i, x := 0, pat; i < 3; i, x = i+1, x/3 {
						ps += string("12U"[x%3])
					}
					key := fmt.Sprintf("pipeline/%s/%s>%s/sub%s/%s", era.Name, pair.from, pair.to, map[int]string{0: "G", 1: "U"}[h0], ps)
					if !c.Want(key) {
						continue
					}
					if c.Expired() {
						r.Capped("deadline before " + key)
						if w != nil {
							w.Close()
						}
						return
					}
					if w == nil {
						w = MustWorld(era, func(b *drive.Builder) {
							FundStd(b)
							for b.Next() < 427 {
								b.AddEmpty(1)
							}
							for b.Next() < 431 {
								b.Add(drive.BlockSpec{Rates: R1(), OPRPayTo: kit.AddrStr(KM)})
							}
						})
					}
					c07One(c, r, w, era, pair, h0 == 0, ps, key, false)
					if strings.ContainsAny(ps, "12") {
						// the same chain with the executing block failing once, late, and retried by the same process
						c07One(c, r, w, era, pair, h0 == 0, ps, key+"/executing-block-retried", true)
					}
				}
			}
		}
		if w != nil {
			w.Close()
		}
	}
}

func c07One(c *core.Ctx, r *core.Result, w *World, era drive.Era, pair c07Pair, subGraded bool, pattern, key string, retried bool) {
	r.Eval()
	run := w.Fork()
	defer run.Close()
	b := run.B
	amount := uint64(7e8 + 12345)
	E := b.Tx(KA, kit.Conversion(AddrA, pair.from, amount, pair.to))
	hSub := b.Next()
	s := drive.BlockSpec{TX: []fake.Entry{E}}
	if subGraded {
		s.Rates = R2().With("PEG", 45e6)
		s.OPRPayTo = kit.AddrStr(KM)
	}
	b.Add(s)
	graded := map[uint32]bool{}
	for _, ch := range pattern {
		h := b.Next()
		switch ch {
		case '1':
			b.Add(drive.BlockSpec{Rates: R1(), OPRPayTo: kit.AddrStr(KM)})
			graded[h] = true
		case '2':
			b.Add(drive.BlockSpec{Rates: R2(), OPRPayTo: kit.AddrStr(KM)})
			graded[h] = true
		default:
			b.AddEmpty(1)
		}
	}
	pre, err := ReadLedger(drive.DBFileOf(w.DBPath))
	if err != nil {
		panic("harness: " + err.Error())
	}
	if retried {
		// fail the write of the sync height (the last statement before COMMIT) of the first graded block after the submission, once
		var firstGraded uint32
		for h := hSub + 1; h <= b.Chain.Tip(); h++ {
			if graded[h] {
				firstGraded = h
				break
			}
		}
		committed := hSub - 1
		fired := false
		run.Open(&sqlw.Hooks{
			Before: func(op *sqlw.Op) error {
				if !fired && committed+1 == firstGraded && op.Kind != "prepare" && strings.Contains(op.SQL, "pn_metadata") && !strings.HasPrefix(strings.ToUpper(strings.TrimSpace(op.SQL)), "SELECT") {
					fired = true
					r.Count("executing-blocks-failed-once", 1)
					return sqlite3.Error{Code: sqlite3.ErrBusy}
				}
				return nil
			},
			After: func(op *sqlw.Op, err error) {
				if op.Kind == "commit" && err == nil {
					committed++
				}
			},
		})
	}
	out := run.Sync()
	if !out.Reached {
		r.Count("inconclusive-"+outcomeClass(out), 1)
		return
	}
	run.D.Close()
	run.D = nil
	v, err := ReadLedger(drive.DBFileOf(run.DBPath))
	if err != nil {
		panic("harness: " + err.Error())
	}
	eh := fake.EntryHash(drive.IDs.TX, E)
	ehx := hex.EncodeToString(eh[:])
	rows := v.Batches[ehx]
	if len(rows) != 1 || len(v.Txs[ehx]) != 1 {
		r.Violate(core.Violation{Key: key, Signature: "C07:conversion-not-recorded-once", Desc: fmt.Sprintf("the conversion entry has %d batch rows and %d transaction rows", len(rows), len(v.Txs[ehx]))})
		return
	}
	executed := rows[0].Executed
	toAmount := v.Txs[ehx][0].ToAmount
	// expected executing height: first graded block after the submission block
	var first uint32
	for h := hSub + 1; h <= b.Chain.Tip(); h++ {
		if graded[h] {
			first = h
			break
		}
	}
	dSrc := int64(pre.Bal(AddrA, pair.from)) - int64(v.Bal(AddrA, pair.from))
	dDst := int64(v.Bal(AddrA, pair.to)) - int64(pre.Bal(AddrA, pair.to))
	if first == 0 {
		r.Outcome("pending")
		if executed != 0 || dSrc != 0 || dDst != 0 {
			r.Violate(core.Violation{Key: key, Signature: "C07:executed-without-a-later-graded-block", Desc: fmt.Sprintf("no block after the submission is graded, yet executed=%d, source delta %d, destination delta %d", executed, dSrc, dDst)})
		}
		return
	}
	if executed < 0 {
		// rejected: admission rules are C13's; only "no effect" is required here
		r.Outcome(fmt.Sprintf("rejected%d", executed))
		if dSrc != 0 || dDst != 0 {
			r.Violate(core.Violation{Key: key, Signature: "C07:rejected-conversion-moved-balances", Desc: fmt.Sprintf("executed=%d but source delta %d, destination delta %d", executed, dSrc, dDst)})
		}
		return
	}
	if executed == 0 {
		// still pending although a graded block followed: admissible only if the amount cannot be converted at that block
		// (a rate or an average unavailable, overflow): C13/C17 own that case
		r.Outcome("pending-after-graded-block")
		if dSrc != 0 || dDst != 0 {
			r.Violate(core.Violation{Key: key, Signature: "C07:pending-conversion-moved-balances", Desc: fmt.Sprintf("source delta %d, destination delta %d", dSrc, dDst)})
			return
		}
		convertible := false
		spot0 := v.Rates[first]
		if first >= era.PIP10 {
			// convertible under EVERY admissible averaging window: then no reading of the rule leaves it pending
			convertible = true
			for _, H := range []uint32{v.LastRatedBefore(first), first} {
				for _, win := range v.AvgWindows(H, era.AvgPeriod) {
					sa, da := v.AvgOver(pair.from, win, era.AvgPeriod/2), v.AvgOver(pair.to, win, era.AvgPeriod/2)
					if sa == 0 || da == 0 {
						convertible = false
					} else if _, ok := RefConvert(int64(amount), minU(spot0[pair.from], sa), maxU(spot0[pair.to], da)); !ok {
						convertible = false
					}
				}
			}
		} else {
			_, convertible = RefConvert(int64(amount), spot0[pair.from], spot0[pair.to])
		}
		if convertible && pre.Bal(AddrA, pair.from) >= amount {
			r.Violate(core.Violation{Key: key, Signature: "C07:convertible-conversion-not-executed-at-the-next-graded-block", Desc: fmt.Sprintf("submitted in %d, first later graded block is %d with rates for both assets, the address can afford it, yet the conversion is still pending at the tip %d", hSub, first, b.Chain.Tip())})
		}
		return
	}
	r.Outcome("executed")
	r.NonTrivial(key)
	if uint32(executed) != first {
		r.Violate(core.Violation{Key: key, Signature: "C07:executed-at-wrong-height", Desc: fmt.Sprintf("submitted in %d, first later graded block is %d, executed at %d", hSub, first, executed)})
		return
	}
	spot := v.Rates[first]
	var admissible []int64
	if first >= era.PIP10 {
		P, req := era.AvgPeriod, era.AvgPeriod/2
		for _, H := range []uint32{v.LastRatedBefore(first), first} {
			for _, win := range v.AvgWindows(H, P) {
				sa, da := v.AvgOver(pair.from, win, req), v.AvgOver(pair.to, win, req)
				if sa == 0 || da == 0 {
					continue
				}
				if x, ok := RefConvert(int64(amount), minU(spot[pair.from], sa), maxU(spot[pair.to], da)); ok {
					admissible = append(admissible, x)
				}
			}
		}
	} else if x, ok := RefConvert(int64(amount), spot[pair.from], spot[pair.to]); ok {
		admissible = append(admissible, x)
	}
	okAmt := false
	for _, x := range admissible {
		if x == toAmount {
			okAmt = true
		}
	}
	if !okAmt {
		sub := v.Rates[hSub]
		hint := ""
		if x, ok := RefConvert(int64(amount), sub[pair.from], sub[pair.to]); ok && x == toAmount && subGraded {
			hint = " (this is the amount at the SUBMISSION block's rates)"
		}
		r.Violate(core.Violation{Key: key, Signature: "C07:credited-amount-not-at-executing-block-rates", Desc: fmt.Sprintf("to_amount=%d, admissible at height %d: %v%s", toAmount, first, admissible, hint)})
		return
	}
	if dSrc != int64(amount) || dDst != toAmount {
		r.Violate(core.Violation{Key: key, Signature: "C07:balances-do-not-match-history", Desc: fmt.Sprintf("source delta %d (input %d), destination delta %d (to_amount %d)", dSrc, amount, dDst, toAmount)})
	}
	if len(r.Samples) < 5 {
		r.Sample(map[string]interface{}{"scenario": key, "executed_at": executed, "to_amount": toAmount, "admissible": admissible})
	}
	_ = strings.TrimSpace
}

package props

import (
	"encoding/json"
	"fmt"
	"os"
	"sort"
	"strings"
	"sync"

	"github.com/anishathalye/porcupine"

	"pegverif/canon"
	"pegverif/core"
	"pegverif/drive"
	"pegverif/fake"
	"pegverif/kit"
	"pegverif/sched"
	"pegverif/sqlw"
)

// C18 API isolation: stateless model checking of the real goroutines.
func init() {
	core.Register(&core.Prop{
		ID: "C18", Level: "model_checking",
		Rule: "threads: S = the real DBlockSync applying two blocks (a conversion priced with averages executes in each), A1 (thorough: A1, A2) = real API handler invocations from {get-rich-list, get-global-rich-list, get-sync-status, get-pegnet-issuance, get-pegnet-balances, get-transactions, get-pegnet-rates, get-bank, get-graded, get-miner-distribution, get-transaction-status}; scheduling points = every driver-level database operation plus handler entry/exit, one thread runs at a time (cooperative scheduler; COMMIT is disabled while another connection holds an open cursor); branching at S's VISIBLE points only (BEGIN, reads through the connection pool, the sync-height write, before and after COMMIT) and at every point of an API thread; preemption-bounded depth-first search over all schedules; oracles per schedule: final ledger == ledger without API threads, nobody dies or blocks, and the call/return history of commits and reads is linearizable (porcupine) against 'a read returns the response computed on the committed state of one height' with reference responses computed per committed height by a fresh node. States = distinct (schedule prefix outcomes); transitions = scheduling steps",
		Assumptions: []string{"S's statements inside its open transaction commute with API reads (SQLite reader/writer isolation), so they are not branch points; thorough re-runs a small configuration with every S point visible and compares outcome sets", "concurrency finer than one database statement is covered only by the free-running race pass (reported, not decided)"},
		MaxWorkers:  16,
		Run:         runC18,
	})
}

type c18Method struct {
	name   string // label (unique)
	params func(w *c18World) interface{}
	method string // RPC method if it differs from the label
}

func (m c18Method) rpc() string {
	if m.method != "" {
		return m.method
	}
	return m.name
}

func c18Methods() []c18Method {
	return []c18Method{
		{"get-rich-list", func(w *c18World) interface{} { return map[string]interface{}{"asset": "pUSD", "count": 5} }, ""},
		{"get-global-rich-list", func(w *c18World) interface{} { return map[string]interface{}{"count": 5} }, ""},
		{"get-sync-status", func(w *c18World) interface{} { return nil }, ""},
		{"get-pegnet-issuance", func(w *c18World) interface{} { return nil }, ""},
		{"get-pegnet-balances", func(w *c18World) interface{} { return map[string]interface{}{"address": AddrA.String()} }, ""},
		{"get-transactions", func(w *c18World) interface{} { return map[string]interface{}{"address": AddrA.String(), "desc": true} }, ""},
		{"get-pegnet-rates", func(w *c18World) interface{} { return nil }, ""},
		{"get-bank", func(w *c18World) interface{} { return nil }, ""},
		{"get-graded", func(w *c18World) interface{} { return nil }, ""},
		{"get-miner-distribution", func(w *c18World) interface{} { return map[string]interface{}{"start": 0, "stop": -3} }, ""},
		{"get-transaction-status", func(w *c18World) interface{} { return map[string]interface{}{"entryhash": w.convHash} }, ""},
		{"get-transaction", func(w *c18World) interface{} { return map[string]interface{}{"txid": "0-" + w.convHash} }, ""},
		{"properties", func(w *c18World) interface{} { return nil }, ""},
		// the one handler that is not a read: dry runs (nothing is sent anywhere), for the node's own transaction chain and for
		// a chain it does not track (refused) - a request must not change what the sync loop does
		{"send-transaction@own-chain/dry-run", func(w *c18World) interface{} {
			return map[string]interface{}{"chainid": fmt.Sprintf("%x", drive.IDs.TX[:]), "extids": []string{"00"}, "content": "7b7d", "dryrun": true}
		}, "send-transaction"},
		{"send-transaction@foreign-chain/dry-run", func(w *c18World) interface{} {
			return map[string]interface{}{"chainid": "2ac925fe" + strings.Repeat("ab", 28), "extids": []string{"00"}, "content": "7b7d", "dryrun": true}
		}, "send-transaction"},
		// requests that name a height the sync loop has not committed yet (the block in flight, and the one after it)
		{"get-pegnet-rates@next", func(w *c18World) interface{} { return map[string]interface{}{"height": w.h0 + 1} }, "get-pegnet-rates"},
		{"get-pegnet-rates@next+1", func(w *c18World) interface{} { return map[string]interface{}{"height": w.h0 + 2} }, "get-pegnet-rates"},
		{"get-transactions@height=next", func(w *c18World) interface{} { return map[string]interface{}{"height": w.h0 + 1} }, "get-transactions"},
		{"get-graded@next", func(w *c18World) interface{} { return map[string]interface{}{"height": w.h0 + 1} }, "get-graded"},
		// parameters in a spelling the chain does not accept (the second block S applies holds a signed entry spelled the same way)
		{"get-rich-list@asset=pusd", func(w *c18World) interface{} { return map[string]interface{}{"asset": "pusd", "count": 5} }, "get-rich-list"},
		{"get-transactions@asset=PUSD", func(w *c18World) interface{} {
			return map[string]interface{}{"address": AddrA.String(), "asset": "PUSD"}
		}, "get-transactions"},
	}
}

type c18World struct {
	era      drive.Era
	b        *drive.Builder
	dir      string
	h0       uint32 // committed height of the start state
	tip      uint32
	cache    cacheCopy
	refDump  canon.Dump
	ref      map[uint32]map[string]string // height -> method -> response
	convHash string
}

func newC18World() *c18World {
	era := drive.EraStage(drive.StPIP10)
	era.Name = "pip10"
	era.Apply()
	b := drive.NewBuilder(era)
	FundStd(b)
	for i := 0; i < 4; i++ {
		rt := R1()
		if i%2 == 1 {
			rt = R2()
		}
		b.Add(drive.BlockSpec{Rates: rt, OPRPayTo: kit.AddrStr(KM)})
	}
	c1 := b.Tx(KA, kit.Conversion(AddrA, "PEG", 100e8, "pUSD"))
	b.Add(drive.BlockSpec{Rates: R1(), OPRPayTo: kit.AddrStr(KM), TX: []fake.Entry{c1}})
	w := &c18World{era: era, b: b, dir: drive.Scratch("c18w"), ref: map[uint32]map[string]string{}}
	eh := fake.EntryHash(drive.IDs.TX, c1)
	w.convHash = fmt.Sprintf("%x", eh[:])
	w.h0 = b.Chain.Tip()
	// the two blocks S will apply
	// the second entry converts FROM the asset whose spot rate in the executing block lies above its rolling average,
	// so that the credited amount depends on the averaging window (anything that disturbs the window shows in the ledger)
	b.Add(drive.BlockSpec{Rates: R2(), OPRPayTo: kit.AddrStr(KM), TX: []fake.Entry{
		b.Tx(KA, kit.Conversion(AddrA, "pUSD", 7e8, "pEUR"), kit.Transfer(AddrA, "pUSD", 3e8, AddrB)),
		b.Tx(KA, kit.Conversion(AddrA, "pEUR", 5e8, "pUSD"))}})
	// the last block holds two well-signed entries that are NOT batches (ticker spellings the parser rejects): whatever a
	// request does to state shared with the parser must not make them executable
	odd := func(ticker string) fake.Entry {
		content := strings.Replace(string(kit.BatchJSON(kit.Transfer(AddrA, "pUSD", 40e8, AddrB))), `"pUSD"`, `"`+ticker+`"`, 1)
		return kit.SignContent(drive.IDs.TX, []byte(content), b.Salt(), kit.Key(KA))
	}
	b.Add(drive.BlockSpec{Rates: R1(), OPRPayTo: kit.AddrStr(KM), TX: []fake.Entry{odd("pusd"), odd("PUSD")}})
	w.tip = b.Chain.Tip()
	// uninterrupted run without API threads: start state (db + cache) and per-height copies
	d, err := drive.Open(w.dir+"/main/db", fake.NewNode(b.Chain), nil, false)
	if err != nil {
		panic(err)
	}
	if out := d.SyncTo(w.h0, drive.SyncOpts{}); !out.Reached {
		panic("harness: C18 prefix: " + out.String())
	}
	w.cache = takeCache(d)
	drive.CopyDB(d.Path, w.dir+"/start/db")
	drive.CopyDB(d.Path, fmt.Sprintf("%s/h%d/db", w.dir, w.h0))
	for h := w.h0 + 1; h <= w.tip; h++ {
		if out := d.SyncTo(h, drive.SyncOpts{}); !out.Reached {
			panic("harness: C18 reference run: " + out.String())
		}
		drive.CopyDB(d.Path, fmt.Sprintf("%s/h%d/db", w.dir, h))
	}
	d.Close()
	w.refDump, _ = canon.File(drive.DBFileOf(w.dir+"/main/db"), canon.Ledger)
	// reference responses per committed height, computed by a fresh node on a copy
	for h := w.h0; h <= w.tip; h++ {
		w.ref[h] = map[string]string{}
		for _, m := range c18Methods() {
			cp := fmt.Sprintf("%s/ref-%d-%s/db", w.dir, h, m.name)
			drive.CopyDB(fmt.Sprintf("%s/h%d/db", w.dir, h), cp)
			fk := fake.NewNode(b.Chain)
			fk.TipFn = func() uint32 { return w.tip }
			rd, err := drive.Open(cp, fk, nil, false)
			if err != nil {
				panic(err)
			}
			w.ref[h][m.name] = c18Call(newAPI(rd), m.rpc(), m.params(w))
			if os.Getenv("PVMC_DEBUG") != "" && h == w.h0 {
				fmt.Fprintf(os.Stderr, "DEBUG ref %s: %s\n", m.name, clipStr(w.ref[h][m.name], 160))
			}
			rd.Close()
			os.RemoveAll(fmt.Sprintf("%s/ref-%d-%s", w.dir, h, m.name))
		}
	}
	return w
}

func c18Call(api *apiCaller, method string, params interface{}) (resp string) {
	defer func() {
		if x := recover(); x != nil {
			resp = fmt.Sprintf("PANIC: %v", x)
		}
	}()
	raw, err := api.call(method, params)
	if err != nil {
		return "ERR: " + err.Error()
	}
	// canonicalise: re-marshal through a generic value so that map order is fixed
	var v interface{}
	json.Unmarshal(raw, &v)
	b, _ := json.Marshal(v)
	return string(b)
}

type c18Event struct {
	client int
	input  string
	output string
	call   int64
	ret    int64
	pub    int64 // commits: when the sync loop went on after COMMIT returned (its in-memory height is published by then)
}

type c18Exec struct {
	trace    []sched.Choice
	events   []c18Event
	dump     canon.Dump
	out      drive.Outcome
	apiDied  string
	stuck    string
	deadlock string
	diverged string
	steps    int
}

// c18Execute runs one schedule.
func (w *c18World) execute(methods []c18Method, prefix []int, allVisible bool) *c18Exec {
	w.era.Apply()
	dir := drive.Scratch("c18x")
	defer os.RemoveAll(dir)
	drive.CopyDB(w.dir+"/start/db", dir+"/db")
	fk := fake.NewNode(w.b.Chain)
	d, err := drive.Continue(dir+"/db", fk, nil, false) // a clone of the running node
	if err != nil {
		panic(err)
	}
	w.cache.restore(d)
	s := sched.New(prefix)
	ex := &c18Exec{}
	var mu sync.Mutex
	cursors := map[int]int{} // conn -> open cursors
	var sTid int = -1
	commitCall := int64(0)
	lastCommit := -1
	afterSyncedBump := false
	hooks := &sqlw.Hooks{
		Before: func(op *sqlw.Op) error {
			tid, ok := s.IsThread()
			if !ok {
				return nil
			}
			visible := true
			var enabled func() bool
			if tid == sTid {
				mu.Lock()
				if n := len(ex.events); lastCommit >= 0 && lastCommit < n && ex.events[lastCommit].pub == 0 {
					ex.events[lastCommit].pub = s.Now()
				}
				mu.Unlock()
				visible = allVisible
				switch {
				case op.Kind == "begin":
					visible = true
					afterSyncedBump = false
				case op.Kind == "commit":
					visible = true
					conn := op.Conn
					enabled = func() bool {
						mu.Lock()
						defer mu.Unlock()
						for c, n := range cursors {
							if c != conn && n > 0 {
								return false
							}
						}
						return true
					}
				case !op.InTx:
					visible = true // a read through the pool: not isolated by the block transaction
				case strings.Contains(op.SQL, "pn_sync_version") && !afterSyncedBump:
					visible = true // first statement after the in-memory height was bumped
					afterSyncedBump = true
				}
			}
			s.Yield(sched.Point{Info: op.Kind + " " + stmtClass(op.SQL), Visible: visible, Enabled: enabled})
			if tid == sTid && op.Kind == "commit" {
				commitCall = s.Now()
			}
			return nil
		},
		After: func(op *sqlw.Op, err error) {
			tid, ok := s.IsThread()
			if !ok {
				return
			}
			if (op.Kind == "query" || op.Kind == "stmt-query") && err == nil {
				mu.Lock()
				cursors[op.Conn]++
				mu.Unlock()
			}
			if tid == sTid && op.Kind == "commit" && err == nil {
				ret := s.Now()
				mu.Lock()
				ex.events = append(ex.events, c18Event{client: 0, input: fmt.Sprintf("commit %d", SyncedOf(d.DBFile())), call: commitCall, ret: ret})
				lastCommit = len(ex.events) - 1
				mu.Unlock()
				s.Yield(sched.Point{Info: "after-commit", Visible: true})
			}
		},
		RowsClosed: func(op *sqlw.Op) {
			mu.Lock()
			cursors[op.Conn]--
			mu.Unlock()
		},
	}
	d.DB.SetHooks(hooks)
	sTid = s.Go("sync", func() {
		ex.out = d.SyncTo(w.tip, drive.SyncOpts{})
		mu.Lock()
		if lastCommit >= 0 && ex.events[lastCommit].pub == 0 {
			ex.events[lastCommit].pub = s.Now()
		}
		mu.Unlock()
	})
	api := newAPI(d)
	// a long-running server: every handler has served a request before the ones under test arrive (whatever a handler
	// keeps between requests is there); these calls run before the scheduler starts and are not observed
	for _, m := range methods {
		c18Call(api, m.rpc(), m.params(w))
	}
	for i, m := range methods {
		i, m := i, m
		s.Go("api-"+m.name, func() {
			s.Yield(sched.Point{Info: "enter " + m.name, Visible: true})
			call := s.Now()
			resp := c18Call(api, m.rpc(), m.params(w))
			ret := s.Now()
			mu.Lock()
			ex.events = append(ex.events, c18Event{client: i + 1, input: "read " + m.name, output: resp, call: call, ret: ret})
			if strings.HasPrefix(resp, "PANIC") || (strings.HasPrefix(resp, "ERR: handler ") && strings.Contains(resp, " panicked: ")) {
				ex.apiDied = m.name + ": " + resp
			}
			mu.Unlock()
			s.Yield(sched.Point{Info: "exit " + m.name, Visible: true})
		})
	}
	s.Run()
	ex.trace = s.Trace
	ex.stuck, ex.deadlock, ex.diverged = s.Stuck, s.Deadlock, s.Diverged
	if ex.stuck != "" || ex.deadlock != "" {
		// leave the goroutines behind; the process ends after the worker's run
		d.DB.KillConns()
		return ex
	}
	d.Close()
	ex.dump, _ = canon.File(drive.DBFileOf(dir+"/db"), canon.Ledger)
	return ex
}

func (w *c18World) linearizable(ex *c18Exec) (bool, string, string) {
	model := porcupine.Model{
		Init: func() interface{} { return w.h0 },
		Step: func(state, input, output interface{}) (bool, interface{}) {
			st := state.(uint32)
			in := input.(string)
			if strings.HasPrefix(in, "commit ") {
				var h uint32
				fmt.Sscanf(in, "commit %d", &h)
				return h == st+1, h
			}
			m := strings.TrimPrefix(in, "read ")
			return w.ref[st][m] == output.(string), st
		},
		Equal: func(a, b interface{}) bool { return a.(uint32) == b.(uint32) },
	}
	// The property speaks about every response on its own ("reflects only fully committed blocks"): it does not
	// promise that two requests observe the sync height and the tables in one global order (the in-memory height
	// is published after COMMIT returns, so get-sync-status may lag behind a table read that finished earlier).
	// Each read is therefore checked against the commits alone.
	var commits []porcupine.Operation
	for _, e := range ex.events {
		if strings.HasPrefix(e.input, "commit ") {
			// a committed block may become visible to readers at any time AFTER the commit was issued
			// (a stale answer reflects only committed blocks); it must never be visible BEFORE
			commits = append(commits, porcupine.Operation{ClientId: e.client, Input: e.input, Output: e.output, Call: e.call, Return: 1 << 60})
		}
	}
	var failing []string
	for _, e := range ex.events {
		if !strings.HasPrefix(e.input, "read ") {
			continue
		}
		ops := append(append([]porcupine.Operation{}, commits...), porcupine.Operation{ClientId: e.client, Input: e.input, Output: e.output, Call: e.call, Return: e.ret})
		if !porcupine.CheckOperations(model, ops) {
			name := strings.TrimPrefix(e.input, "read ")
			// no block was being committed while the request ran: whatever makes the response wrong, it is not a block
			// landing between two of the handler's reads, the in-memory height among them (C18-K1); named apart so that that finding does not cover it
			quiet := true
			for _, cm := range ex.events {
				end := cm.pub
				if end == 0 {
					end = 1 << 60
				}
				if strings.HasPrefix(cm.input, "commit ") && cm.call <= e.ret && end >= e.call {
					quiet = false
				}
			}
			if quiet {
				name += "(no-commit-during-the-request)"
			}
			failing = append(failing, name)
		}
	}
	if len(failing) == 0 {
		return true, "", ""
	}
	sort.Strings(failing)
	failing = uniq(failing)
	// explain: which heights would the read match
	var parts []string
	for _, e := range ex.events {
		if strings.HasPrefix(e.input, "read ") {
			m := strings.TrimPrefix(e.input, "read ")
			var match []string
			for h := w.h0; h <= w.tip; h++ {
				if w.ref[h][m] == e.output {
					match = append(match, fmt.Sprint(h))
				}
			}
			parts = append(parts, fmt.Sprintf("%s [%d,%d] matches committed heights {%s}: %s", e.input, e.call, e.ret, strings.Join(match, ","), clipStr(e.output, 300)))
			if len(match) == 0 {
				for h := w.h0; h <= w.tip; h++ {
					parts = append(parts, fmt.Sprintf("(the response at committed height %d is %s)", h, clipStr(w.ref[h][m], 300)))
				}
			}
		} else {
			parts = append(parts, fmt.Sprintf("%s [%d,%d]", e.input, e.call, e.ret))
		}
	}
	return false, strings.Join(parts, " | "), strings.Join(failing, "+")
}

func clipStr(s string, n int) string {
	if len(s) > n {
		return s[:n] + "…"
	}
	return s
}

func runC18(c *core.Ctx, r *core.Result) {
	bound := 2
	if c.Thorough() {
		bound = 3
	}
	methods := c18Methods()
	type scen struct {
		name string
		ms   []c18Method
		all  bool
	}
	var scens []scen
	for _, m := range methods {
		scens = append(scens, scen{m.name, []c18Method{m}, false})
	}
	if c.Thorough() {
		for _, a := range []int{0, 1, 3, 2} {
			for _, b := range []int{0, 1, 3} {
				scens = append(scens, scen{methods[a].name + "+" + methods[b].name, []c18Method{methods[a], methods[b]}, false})
			}
		}
		scens = append(scens, scen{"all-points-visible/get-rich-list", []c18Method{methods[0]}, true})
		scens = append(scens, scen{"all-points-visible/get-pegnet-issuance", []c18Method{methods[3]}, true})
	} else {
		scens = append(scens, scen{"get-rich-list+get-global-rich-list", []c18Method{methods[0], methods[1]}, false})
	}
	var w *c18World
	for si, sc := range scens {
		if !c.Mine(si) && c.Only == "" {
			continue
		}
		if c.Only != "" && !strings.HasPrefix(c.Only, sc.name+"/") && c.Only != sc.name {
			continue
		}
		if w == nil {
			w = newC18World()
			defer os.RemoveAll(w.dir)
		}
		b := bound
		if len(sc.ms) > 1 && !c.Thorough() {
			b = 1
		}
		if sc.all {
			b = 1
		}
		c18Explore(c, r, w, sc.name, sc.ms, b, sc.all)
	}
}

func c18Explore(c *core.Ctx, r *core.Result, w *c18World, name string, ms []c18Method, bound int, allVisible bool) {
	outcomes := map[string]int{}
	reported := map[string]bool{}
	var explore func(prefix []int)
	count := 0
	explore = func(prefix []int) {
		if c.Expired() {
			r.Capped(fmt.Sprintf("deadline in %s after %d schedules", name, count))
			return
		}
		key := fmt.Sprintf("%s/%v", name, prefix)
		if c.Only != "" && c.Only != name && c.Only != key {
			// replay of one schedule: descend only along the requested prefix
			want := strings.TrimPrefix(c.Only, name+"/")
			if !strings.HasPrefix(want, strings.TrimSuffix(fmt.Sprint(prefix), "]")) {
				return
			}
		}
		ex := w.execute(ms, prefix, allVisible)
		count++
		r.Eval()
		r.Traces++
		r.Transitions += len(ex.trace) + len(ex.events)
		sk := fmt.Sprint(ex.trace)
		r.AddState(name + "|" + sk)
		if len(prefix) > 0 {
			r.NonTrivial(key)
		}
		viol := func(sig, desc string, detail ...string) {
			full := "C18:" + sig
			if reported[full] {
				r.Count("further-occurrences-of-"+full, 1)
				return
			}
			reported[full] = true
			r.Violate(core.Violation{Key: key, Signature: full, Desc: desc, Detail: detail})
		}
		var mnames []string
		for _, m := range ms {
			mnames = append(mnames, m.name)
		}
		mn := strings.Join(mnames, "+")
		oc := "ok"
		switch {
		case ex.diverged != "":
			oc = "diverged"
			r.Count("harness-divergence", 1)
		case ex.stuck != "":
			oc = "stuck"
			viol("sync-or-api-blocked:"+mn, "a thread blocks inside an operation under this schedule: "+ex.stuck)
		case ex.deadlock != "":
			oc = "deadlock"
			viol("deadlock:"+mn, "no thread can proceed: "+ex.deadlock)
		default:
			if !ex.out.Reached {
				oc = outcomeClass(ex.out)
				viol("sync-"+oc+"-under-api-load:"+mn+":"+errClass(ex.out.LastErr+ex.out.DiedMsg), "with an API request interleaved the sync loop does not reach the tip: "+ex.out.String())
			} else if !canon.Equal(w.refDump, ex.dump) {
				oc = "ledger-differs"
				viol("ledger-differs-under-api-load:"+mn+":"+strings.Join(canon.TablesDiffering(w.refDump, ex.dump), "+"),
					"the ledger computed while an API request was served differs from the ledger computed without API load", joinDiff(w.refDump, ex.dump)...)
			}
			if ex.apiDied != "" {
				viol("api-handler-panics:"+mn, "an API handler panicked: "+ex.apiDied)
			}
			if ok, why, which := w.linearizable(ex); !ok {
				if oc == "ok" {
					oc = "not-linearizable"
				}
				// named by the request(s) whose response is at fault, not by the scenario
				viol("response-not-from-one-committed-height:"+which, "an API response does not equal the response of any single committed height that is consistent with the call/return order", why)
			}
		}
		outcomes[oc]++
		r.Outcome(oc)
		if len(r.Samples) < 4 && len(prefix) > 0 {
			var evs []string
			for _, e := range ex.events {
				evs = append(evs, fmt.Sprintf("%s[%d,%d]", e.input, e.call, e.ret))
			}
			r.Sample(map[string]interface{}{"scenario": name, "choices": prefix, "choice_points": len(ex.trace), "history": evs, "outcome": oc})
		}
		// children
		pre := 0
		for i, ch := range ex.trace {
			if i < len(prefix) {
				if ch.Preemptive && ch.Picked != 0 {
					pre++
				}
				continue
			}
			for alt := 1; alt < len(ch.Options); alt++ {
				cost := pre
				if ch.Preemptive {
					cost++
				}
				if cost > bound {
					continue
				}
				np := append(append([]int{}, ex.choicesUpTo(i)...), alt)
				explore(np)
			}
			// default choice taken at i (Picked == 0): no extra preemption
		}
	}
	explore(nil)
	var ks []string
	for k, v := range outcomes {
		ks = append(ks, fmt.Sprintf("%s=%d", k, v))
	}
	sort.Strings(ks)
	r.Note("%s (bound %d): %d schedules: %s", name, bound, count, strings.Join(ks, " "))
}

func (ex *c18Exec) choicesUpTo(i int) []int {
	out := make([]int, i)
	for j := 0; j < i; j++ {
		out[j] = ex.trace[j].Picked
	}
	return out
}

package props

import (
	"errors"
	"fmt"
	"os"
	"strings"

	sqlite3 "github.com/mattn/go-sqlite3"
	"github.com/pegnet/pegnetd/fat/fat2"

	"pegverif/canon"
	"pegverif/core"
	"pegverif/drive"
	"pegverif/fake"
	"pegverif/sqlw"
)

// C10 Fault transparency.
func init() {
	core.Register(&core.Prop{
		ID: "C10", Level: "fault_enumeration",
		Rule: "fault = (block h of a coverage chain, either upstream request identified by (method, key, n-th occurrence) failing once in one of the error kinds, or driver-level SQL operation k of the block failing once with SQLITE_BUSY / SQLITE_IOERR); an evaluation = one faulted run of the real DBlockSync from the uninterrupted run's state at h-1 (database copy + rolling-average cache) through h+3, compared after every commit with the fault-free ledger of that height and at the end with the fault-free cache; a process death under a storage fault is followed by a restart; non-trivial = the fault fired; distinct by (chain, height, site, kind); thorough adds all error kinds and all pairs of SQL faults within two small blocks",
		Assumptions: []string{"daemon state between blocks = database + rolling-average cache (checked by C09)", "single-shot faults; the fake node and database are healthy afterwards", "SQLite atomic commit"},
		Run:         runC10,
	})
}

type cacheCopy struct {
	data   map[fat2.PTicker][]uint64
	avgs   map[fat2.PTicker]uint64
	height uint32
	// full is the whole in-memory state of the node (generic deep copy): whatever else a changed tree keeps in memory
	full drive.NodeState
}

func takeCache(d *drive.Daemon) cacheCopy {
	c := cacheCopy{height: d.Node.LastAveragesHeight, full: d.Snapshot()}
	if d.Node.LastAveragesData != nil {
		c.data = map[fat2.PTicker][]uint64{}
		for k, v := range d.Node.LastAveragesData {
			c.data[k] = append([]uint64{}, v...)
		}
	}
	if d.Node.LastAverages != nil {
		c.avgs = map[fat2.PTicker]uint64{}
		for k, v := range d.Node.LastAverages {
			c.avgs[k] = v
		}
	}
	return c
}

func (c cacheCopy) restore(d *drive.Daemon) {
	d.Restore(c.full)
	d.Node.LastAveragesHeight = c.height
	d.Node.LastAveragesData = nil
	d.Node.LastAverages = nil
	if c.data != nil {
		d.Node.LastAveragesData = map[fat2.PTicker][]uint64{}
		for k, v := range c.data {
			d.Node.LastAveragesData[k] = append([]uint64{}, v...)
		}
	}
	if c.avgs != nil {
		d.Node.LastAverages = map[fat2.PTicker]uint64{}
		for k, v := range c.avgs {
			d.Node.LastAverages[k] = v
		}
	}
}

func (c cacheCopy) String() string {
	var parts []string
	for t := fat2.PTicker(1); t < fat2.PTickerMax; t++ {
		if v, ok := c.data[t]; ok {
			parts = append(parts, fmt.Sprintf("%s:%v", t.String(), v))
		}
	}
	var ap []string
	for t := fat2.PTicker(1); t < fat2.PTickerMax; t++ {
		if v, ok := c.avgs[t]; ok {
			ap = append(ap, fmt.Sprintf("%s:%d", t.String(), v))
		}
	}
	extra := ""
	if !c.full.IsZero() {
		extra = fmt.Sprintf(" state=%x", sha256d([]byte(c.full.Fingerprint()))[:6])
	}
	return fmt.Sprintf("h=%d data={%s} avg={%s}%s", c.height, strings.Join(parts, " "), strings.Join(ap, " "), extra)
}

// refRun is the uninterrupted run of a coverage chain with per-height checkpoints.
type refRun struct {
	cov   Coverage
	b     *drive.Builder
	dir   string
	D     map[uint32]canon.Dump
	cache map[uint32]cacheCopy
	tip   uint32
	wal   bool
}

func (rr *refRun) ckpt(h uint32) string { return fmt.Sprintf("%s/ckpt-%d/db", rr.dir, h) }

func newRefRun(cov Coverage, keep func(h uint32) bool) (*refRun, drive.Outcome) {
	cov.Era.Apply()
	b := drive.NewBuilder(cov.Era)
	cov.Build(b)
	rr := &refRun{cov: cov, b: b, dir: drive.Scratch("ref"), D: map[uint32]canon.Dump{}, cache: map[uint32]cacheCopy{}, tip: b.Chain.Tip()}
	d, err := drive.Open(rr.dir+"/main/db", fake.NewNode(b.Chain), nil, false)
	if err != nil {
		panic("harness: " + err.Error())
	}
	committed := cov.Era.Base
	save := func() {
		if keep(committed) || keep(committed+1) {
			if err := drive.CopyDB(d.Path, rr.ckpt(committed)); err != nil {
				panic("harness: ckpt: " + err.Error())
			}
			rr.cache[committed] = takeCache(d)
		}
		if keep(committed) || keep(committed-1) || keep(committed-2) || keep(committed-3) || keep(committed+1) {
			dump, e := canon.File(d.DBFile(), canon.Ledger)
			if e != nil {
				panic("harness: dump: " + e.Error())
			}
			rr.D[committed] = dump
		}
	}
	save()
	d.DB.SetHooks(&sqlw.Hooks{After: func(op *sqlw.Op, err error) {
		if op.Kind == "commit" && err == nil {
			committed++
			save()
		}
	}})
	out := d.SyncTo(rr.tip, drive.SyncOpts{})
	d.Close()
	return rr, out
}

func (rr *refRun) Close() { os.RemoveAll(rr.dir) }

type c10Fault struct {
	// exactly one of
	sqlOp   int    // 1-based op index within the run (0 = none)
	sqlKind string // busy | ioerr
	reqID   string // method:key
	reqNth  int
	reqKind fake.FaultKind
	// second SQL fault for pairs
	sqlOp2 int
}

func (f c10Fault) String() string {
	if f.reqID != "" {
		return fmt.Sprintf("req %s#%d %s", f.reqID, f.reqNth, f.reqKind)
	}
	if f.sqlOp2 > 0 {
		return fmt.Sprintf("sql op %d+%d %s", f.sqlOp, f.sqlOp2, f.sqlKind)
	}
	return fmt.Sprintf("sql op %d %s", f.sqlOp, f.sqlKind)
}

type c10Probe struct {
	ops  []sqlw.Op  // ops of the first block
	reqs []fake.Req // requests of the first block
}

// c10Run runs from checkpoint h-1 to `to` with the fault; returns per-height ledger hashes and notes.
type c10Result struct {
	out       drive.Outcome
	restarted bool
	dumps     map[uint32]canon.Dump
	cache     cacheCopy
	fired     bool
	site      string // caller + statement class of the faulted op
	probe     c10Probe
}

func sqlErr(kind string) error {
	switch kind {
	case "ioerr":
		return sqlite3.Error{Code: sqlite3.ErrIoErr}
	case "generic":
		return errors.New("injected storage failure")
	}
	return sqlite3.Error{Code: sqlite3.ErrBusy}
}

// siteOf names a fault site by the innermost frame of package node (the sync
// pipeline function) and the innermost pegnetd frame below it.
func siteOf(stack []string) string {
	inner := ""
	nodeFn := ""
	for _, f := range stack {
		if strings.HasPrefix(f, "node/pegnet.") || strings.HasPrefix(f, "node/conversions.") {
			if inner == "" {
				inner = strings.TrimPrefix(f, "node/pegnet.")
			}
			continue
		}
		if strings.HasPrefix(f, "node.") {
			nodeFn = strings.TrimPrefix(f, "node.")
			break
		}
	}
	nodeFn = strings.NewReplacer("(*Pegnetd).", "", "(*Pegnet).", "", "Pegnet.", "").Replace(nodeFn)
	inner = strings.NewReplacer("(*Pegnet).", "", "Pegnet.", "").Replace(inner)
	if inner == "" {
		return nodeFn
	}
	return nodeFn + "/" + inner
}

func stmtClass(q string) string {
	f := strings.Fields(q)
	if len(f) == 0 {
		return ""
	}
	verb := strings.ToUpper(f[0])
	tbl := ""
	for i, w := range f {
		u := strings.ToUpper(w)
		if (u == "INTO" || u == "FROM" || u == "UPDATE" || u == "TABLE") && i+1 < len(f) {
			tbl = strings.Trim(f[i+1], "\"`(;")
			if u != "UPDATE" || true {
				break
			}
		}
	}
	if verb == "UPDATE" && len(f) > 1 {
		tbl = strings.Trim(f[1], "\"`(;")
	}
	if strings.HasSuffix(tbl, "_balance") {
		tbl = "balance-column"
	}
	return verb + " " + tbl
}

func (rr *refRun) faultRun(h, to uint32, f c10Fault, wantProbe bool) c10Result {
	rr.cov.Era.Apply()
	dir := drive.Scratch("c10")
	defer os.RemoveAll(dir)
	if err := drive.CopyDB(rr.ckpt(h-1)[:len(rr.ckpt(h-1))-0], dir+"/db"); err != nil {
		panic("harness: " + err.Error())
	}
	res := c10Result{dumps: map[uint32]canon.Dump{}}
	node := fake.NewNode(rr.b.Chain)
	// a clone of the uninterrupted node at h-1 (no start-up code); only a death is followed by a real restart
	d, err := drive.Continue(dir+"/db", node, nil, rr.wal)
	if err != nil {
		panic("harness: open ckpt: " + err.Error())
	}
	rr.cache[h-1].restore(d)
	committed := h - 1
	nOp := 0
	fired1, fired2 := false, false
	reqSeen := map[string]int{}
	hooks := &sqlw.Hooks{WantCaller: true,
		Before: func(op *sqlw.Op) error {
			nOp++
			if wantProbe && committed == h-1 {
				res.probe.ops = append(res.probe.ops, *op)
			}
			if f.sqlOp > 0 && nOp == f.sqlOp && !fired1 {
				fired1 = true
				res.fired = true
				res.site = siteOf(op.Stack) + " | " + stmtClass(op.SQL)
				return sqlErr(f.sqlKind)
			}
			if f.sqlOp2 > 0 && nOp == f.sqlOp2 && !fired2 {
				fired2 = true
				return sqlErr(f.sqlKind)
			}
			return nil
		},
		After: func(op *sqlw.Op, err error) {
			if op.Kind == "commit" && err == nil {
				committed++
				if dump, e := canon.File(d.DBFile(), canon.Ledger); e == nil {
					res.dumps[committed] = dump
				}
			}
		},
	}
	d.DB.SetHooks(hooks)
	pending := func() bool {
		if f.reqID != "" {
			return !res.fired
		}
		if f.sqlOp > 0 && !fired1 {
			return true
		}
		if f.sqlOp2 > 0 && !fired2 {
			return true
		}
		return false
	}
	onReq := func(r fake.Req) fake.FaultKind {
		if wantProbe && committed == h-1 {
			res.probe.reqs = append(res.probe.reqs, r)
		}
		reqSeen[r.ID()]++
		if f.reqID != "" && r.ID() == f.reqID && reqSeen[r.ID()] == f.reqNth && !res.fired {
			res.fired = true
			res.site = siteOf(sqlw.CallerStack()) + " | upstream " + r.Method + " " + r.Kind
			return f.reqKind
		}
		return fake.NoFault
	}
	res.out = d.SyncTo(to, drive.SyncOpts{FaultPending: pending, OnRequest: onReq})
	if res.out.Died {
		// process death: restart on the same files and carry on
		res.restarted = true
		d.Close()
		// what SIGKILL leaves behind: the files. A copy has a new inode, so the locks of
		// the dead incarnation's (zombie) connections inside this process do not apply.
		if err := drive.CopyDB(dir+"/db", dir+"/restart/db"); err != nil {
			panic("harness: " + err.Error())
		}
		d2, err := drive.Open(dir+"/restart/db", node, nil, rr.wal)
		if err != nil {
			res.out = drive.Outcome{Died: true, DiedMsg: "restart refused: " + err.Error()}
			return res
		}
		d = d2
		committed = d.Node.Sync.Synced
		d.DB.SetHooks(hooks)
		res.out = d.SyncTo(to, drive.SyncOpts{})
	}
	res.cache = takeCache(d)
	d.Close()
	return res
}

func runC10(c *core.Ctx, r *core.Result) {
	covs := []Coverage{CoverageLegacy(), Coverage2x()}
	idx := 0
	for ci, cov := range covs {
		special := map[uint32]bool{}
		if ci == 1 && !c.Thorough() {
			for _, h := range []uint32{291, 292, 293, 431, 432, 440, 450, 451, 460, 470, 563, 575, 576} {
				special[h] = true
			}
		}
		interesting := func(h uint32) bool {
			if h <= cov.Era.Base {
				return false
			}
			if len(special) > 0 {
				return special[h]
			}
			return cov.Interesting(h)
		}
		// which heights are mine
		mine := map[uint32]bool{}
		// build once to know the tip
		cov.Era.Apply()
		tb := drive.NewBuilder(cov.Era)
		cov.Build(tb)
		tip := tb.Chain.Tip()
		for h := cov.Era.Base + 1; h <= tip; h++ {
			if interesting(h) {
				idx++
				if c.Mine(idx) || c.Only != "" {
					mine[h] = true
				}
			}
		}
		if len(mine) == 0 {
			continue
		}
		keep := func(h uint32) bool { return mine[h+1] || mine[h] }
		rr, out := newRefRun(cov, func(h uint32) bool { return keep(h) || mine[h] })
		if !out.Reached {
			r.Violate(core.Violation{Key: cov.Name + "/uninterrupted", Signature: "C10:harness:coverage-chain-does-not-sync", Desc: out.String()})
			rr.Close()
			continue
		}
		for h := cov.Era.Base + 1; h <= tip; h++ {
			if !mine[h] {
				continue
			}
			if c.Expired() {
				r.Capped(fmt.Sprintf("deadline before %s height %d", cov.Name, h))
				break
			}
			c10Height(c, r, rr, h)
		}
		rr.Close()
	}
}

func c10Height(c *core.Ctx, r *core.Result, rr *refRun, h uint32) {
	to := h + 3
	if to > rr.tip {
		to = rr.tip
	}
	// need reference dumps for h..to: re-derive from the fault-free probe run itself (also a self-check of the checkpoint method)
	probe := rr.faultRun(h, to, c10Fault{}, true)
	if !probe.out.Reached {
		r.Violate(core.Violation{Key: fmt.Sprintf("%s/h%d/probe", rr.cov.Name, h), Signature: "C10:harness:probe-run-failed", Desc: probe.out.String()})
		return
	}
	for hh := h; hh <= to; hh++ {
		if ref, ok := rr.D[hh]; ok && !canon.Equal(ref, probe.dumps[hh]) {
			r.Violate(core.Violation{Key: fmt.Sprintf("%s/h%d/probe", rr.cov.Name, h), Signature: "C10:harness:checkpoint-run-differs-from-uninterrupted",
				Desc: fmt.Sprintf("fault-free run from the checkpoint at %d differs from the uninterrupted run at height %d (state is not database + cache)", h-1, hh), Detail: joinDiff(ref, probe.dumps[hh])})
			return
		}
	}
	refD := probe.dumps
	refCache := probe.cache.String()

	var faults []c10Fault
	sqlKinds := []string{"busy"}
	reqKinds := []fake.FaultKind{fake.FaultTransport, fake.FaultTruncated, fake.FaultSubstituted}
	if c.Thorough() {
		sqlKinds = []string{"busy", "ioerr"}
		reqKinds = fake.AllFaultKinds
	}
	siteCount := map[string]int{}
	for k := 1; k <= len(probe.probe.ops); k++ {
		op := probe.probe.ops[k-1]
		sk0 := siteOf(op.Stack) + "|" + op.Kind + "|" + stmtClass(op.SQL)
		siteCount[sk0]++
		if !c.Thorough() && siteCount[sk0] > 2 {
			r.Count("quick-tier-skipped-repeat-of-same-call-site", 1)
			continue
		}
		for _, sk := range sqlKinds {
			faults = append(faults, c10Fault{sqlOp: k, sqlKind: sk})
		}
	}
	seen := map[string]int{}
	kindCount := map[string]int{}
	for _, rq := range probe.probe.reqs {
		seen[rq.ID()]++
		kindCount[rq.Kind]++
		if !c.Thorough() && kindCount[rq.Kind] > 3 {
			r.Count("quick-tier-skipped-repeat-of-same-request-kind", 1)
			continue
		}
		for _, rk := range reqKinds {
			faults = append(faults, c10Fault{reqID: rq.ID(), reqNth: seen[rq.ID()], reqKind: rk})
		}
	}
	if c.Thorough() && len(probe.probe.ops) <= 40 {
		for a := 1; a <= len(probe.probe.ops); a++ {
			for b := a + 1; b <= len(probe.probe.ops)+3; b++ {
				faults = append(faults, c10Fault{sqlOp: a, sqlOp2: b, sqlKind: "busy"})
			}
		}
	}
	for _, f := range faults {
		key := fmt.Sprintf("%s/h%d/%s", rr.cov.Name, h, f)
		if !c.Want(key) {
			continue
		}
		if c.Expired() {
			r.Capped("deadline inside " + key)
			return
		}
		r.Eval()
		res := rr.faultRun(h, to, f, false)
		if res.fired {
			r.NonTrivial(key)
		} else {
			r.Count("fault-did-not-fire", 1)
		}
		oc := outcomeClass(res.out)
		if res.restarted {
			oc += "-after-restart"
			r.Count("process-died-then-restarted", 1)
		}
		r.Outcome(oc)
		site := res.site
		sigSite := site
		if i := strings.Index(site, " | "); i >= 0 {
			sigSite = site[:i]
			if strings.Contains(site, "upstream") {
				sigSite += "/upstream"
			}
		}
		if !res.out.Reached {
			r.Violate(core.Violation{Key: key, Signature: fmt.Sprintf("C10:no-recovery:%s:%s", sigSite, errClass(res.out.LastErr+res.out.DiedMsg)),
				Desc: fmt.Sprintf("after a single transient fault (%s at height %d of chain %s, site %s) the daemon does not reach the fault-free state: %s", f, h, rr.cov.Name, site, res.out)})
			continue
		}
		bad := false
		for hh := h; hh <= to && !bad; hh++ {
			if !canon.Equal(refD[hh], res.dumps[hh]) {
				bad = true
				r.Violate(core.Violation{Key: key, Signature: fmt.Sprintf("C10:committed-ledger-differs:%s", sigSite),
					Desc:   fmt.Sprintf("a single transient fault (%s, site %s) while applying height %d of chain %s changed what was committed at height %d (tables %s)", f, site, h, rr.cov.Name, hh, strings.Join(canon.TablesDiffering(refD[hh], res.dumps[hh]), "+")),
					Detail: joinDiff(refD[hh], res.dumps[hh])})
			}
		}
		if !bad && !res.restarted && res.cache.String() != refCache {
			r.Violate(core.Violation{Key: key, Signature: fmt.Sprintf("C10:cache-differs:%s", sigSite),
				Desc:   fmt.Sprintf("a single transient fault (%s) at height %d left a different rolling-average cache", f, h),
				Detail: []string{"want " + refCache, "got  " + res.cache.String()}})
		}
		if len(r.Samples) < 4 && res.fired {
			r.Sample(map[string]interface{}{"fault": key, "site": site, "outcome": oc})
		}
	}
}

package props

import (
	"encoding/hex"
	"fmt"
	"strings"

	"github.com/pegnet/pegnet/modules/opr"

	"pegverif/core"
	"pegverif/drive"
	"pegverif/fake"
	"pegverif/kit"
)

// C13 Conversion admission rules by height.
func init() {
	core.Register(&core.Prop{
		ID: "C13", Level: "exploration",
		Rule: "one rich address that acquired every asset through protocol events along a compressed mainnet timeline submits one conversion entry for EVERY ordered asset pair (62 x 61 = 3782 entries in one block); the next graded block executes them at an era point: just before / at / after each of the one-way-pFCT, PegNet 2.0, one-way-small-assets (2.0.2) and averaging (2.0.5) activations, plus rate patterns (spot rate zeroed by the tolerance band for a source / destination asset, average unavailable while the spot rate exists). A model written from the property's list decides per entry executed / not executed and the exact amount (sequential running balances); it is compared per entry with the recorded status and amount and in aggregate with every balance of the address. Non-trivial = distinct (era point, source, destination)",
		Assumptions: []string{"recorded spot rates are read from the database (C12)", "every block of the averaging window is graded so the window is unambiguous", "conversions into PEG during the bank eras are C16's subject and are not predicted here"},
		Run:         runC13,
	})
}

const KR = 5 // the rich address

func c13Era() drive.Era {
	e := drive.EraStage(drive.StPegPrice)
	e.Name = "c13-timeline"
	e.OneWayFCT = 296
	e.ConvLimit = 300
	e.FreeFloat = 300
	e.V4 = 304
	e.RCDe = 304
	e.V20 = 312
	e.DevRewards = 320
	e.SprSig = 320
	e.V202 = 330
	e.OneWaySmall = 330
	e.PIP10 = 340
	e.AvgPeriod = 4
	return e
}

var c13Small = map[string]bool{"PEG": true, "pDCR": true, "pDGB": true, "pDOGE": true, "pHBAR": true, "pONT": true, "pRVN": true, "pBAT": true, "pALGO": true, "pBIF": true, "pETB": true, "pKES": true, "pNGN": true, "pRWF": true, "pTZS": true, "pUGX": true}

func assetName(i int) string {
	if i == 0 {
		return "PEG"
	}
	return "p" + opr.V5Assets[i]
}

// c13Rates: distinct, well-separated rates per asset.
func c13Rates() kit.Rates {
	r := make(kit.Rates, 62)
	for i := range r {
		r[i] = uint64(5e7 + uint64(i)*3e6)
	}
	r[kit.AssetIndex("XBT")] = 9000e8
	r[kit.AssetIndex("USD")] = 1e8
	r[0] = 2e7
	return r
}

type c13Point struct {
	name   string
	exec   uint32
	zeroAt map[uint32][]string // height -> assets whose SPR quote is pushed out of the band
}

func c13Points(thorough bool) []c13Point {
	e := c13Era()
	var out []c13Point
	for _, a := range []struct {
		n string
		h uint32
	}{{"onewayfct", e.OneWayFCT}, {"v20", e.V20}, {"onewaysmall", e.OneWaySmall}, {"pip10", e.PIP10}} {
		out = append(out, c13Point{a.n + "-1", a.h - 1, nil}, c13Point{a.n + "+0", a.h, nil}, c13Point{a.n + "+1", a.h + 1, nil})
	}
	out = append(out,
		c13Point{"pip10-spot-zero-pEUR", 350, map[uint32][]string{350: {"EUR"}}},
		c13Point{"pip10-avg-unavailable-pJPY", 350, map[uint32][]string{346: {"JPY"}, 347: {"JPY"}, 348: {"JPY"}, 349: {"JPY"}}},
		c13Point{"v202-spot-zero-pEUR", 336, map[uint32][]string{336: {"EUR"}}},
	)
	if thorough {
		out = append(out,
			c13Point{"bank-interior", 302, nil}, c13Point{"v4-interior", 308, nil}, c13Point{"v20-interior", 316, nil},
			c13Point{"pip10-avg-and-spot-zero", 350, map[uint32][]string{347: {"JPY", "GBP"}, 348: {"JPY", "GBP"}, 349: {"JPY", "GBP"}, 350: {"EUR", "JPY"}}},
		)
	}
	return out
}

func runC13(c *core.Ctx, r *core.Result) {
	for pi, pt := range c13Points(c.Thorough()) {
		if !(c.Mine(pi) || c.Only != "") {
			continue
		}
		if c.Only != "" && !strings.HasPrefix(c.Only, pt.name+"/") {
			continue
		}
		if c.Expired() {
			r.Capped("deadline before " + pt.name)
			return
		}
		c13Run(c, r, pt)
	}
}

func c13Run(c *core.Ctx, r *core.Result, pt c13Point) {
	era := c13Era()
	era.Apply()
	R := kit.Addr(KR)
	rates := c13Rates()
	b := drive.NewBuilder(era)
	graded := func(s drive.BlockSpec) drive.BlockSpec {
		h := b.Next()
		s.Rates = rates
		if s.OPRPayTo == "" {
			s.OPRPayTo = kit.AddrStr(KM)
		}
		if z, ok := pt.zeroAt[h]; ok && h >= era.V20 {
			sr := append(kit.Rates{}, rates...)
			for _, a := range z {
				sr[kit.AssetIndex(a)] *= 10
			}
			s.SPR = sprSet(era, h, sr, R[:], KR, 25)
		}
		return s
	}
	convAll := func(from string, lo, hi int, amt uint64) []fake.Entry {
		var out []fake.Entry
		for i := lo; i < hi; i++ {
			to := assetName(i)
			if to == from || to == "PEG" {
				continue
			}
			out = append(out, b.Tx(KR, kit.Conversion(R, from, amt, to)))
		}
		return out
	}
	var entries []fake.Entry
	type pair struct{ src, dst string }
	var pairs []pair
	firsts := map[int]int64{} // entry index -> amount of the allowed pUSD->pEUR conversion that precedes the pair in its batch
	for b.Next() < pt.exec+1 {
		h := b.Next()
		s := drive.BlockSpec{}
		switch {
		case h == 289:
			s.OPRPayTo = R.String()
			s.Factoid = []fake.FTx{kit.Burn(KR, 1e6*1e8, BurnRCD(), 77)}
		case h == 290:
			s.OPRPayTo = R.String()
			s.TX = convAll("pFCT", 1, 30, 1000e8)
		case h == 305:
			s.TX = convAll("pUSD", 30, 42, 10e8)
		case h == 313:
			s.TX = convAll("pUSD", 42, 62, 10e8)
		}
		if h == pt.exec-1 {
			// every ordered pair, one entry each
			n := 0
			for i := 0; i < 62; i++ {
				for j := 0; j < 62; j++ {
					if i == j {
						continue
					}
					n++
					src, dst := assetName(i), assetName(j)
					e := b.Tx(KR, kit.Conversion(R, src, uint64(1000+n), dst))
					entries = append(entries, e)
					pairs = append(pairs, pair{src, dst})
				}
			}
			// the same destinations in SECOND position of a batch whose first conversion is always allowed:
			// the rule applies to every transaction of a batch, and a batch is rejected whole
			for j := 0; j < 62; j++ {
				dst := assetName(j)
				if dst == "pUSD" {
					continue
				}
				n++
				e := b.Tx(KR, kit.Conversion(R, "pUSD", uint64(500+n), "pEUR"), kit.Conversion(R, "pUSD", uint64(1000+n), dst))
				entries = append(entries, e)
				pairs = append(pairs, pair{"pUSD", dst})
				firsts[len(pairs)-1] = int64(500 + n)
			}
			s.TX = append(s.TX, entries...)
		}
		b.Add(graded(s))
	}
	// sync to exec-1, snapshot the observable state, then the executing block
	dir := drive.Scratch("c13")
	defer func() { _ = dir }()
	run := &Run{B: b, Dir: dir, DBPath: dir + "/db"}
	defer run.Close()
	if out := run.SyncTo(pt.exec - 1); !out.Reached {
		r.Violate(core.Violation{Key: pt.name + "/prefix", Signature: "C13:harness:timeline-does-not-sync:" + errClass(out.String()), Desc: out.String()})
		return
	}
	run.D.Close()
	run.D = nil
	pre, err := ReadLedger(drive.DBFileOf(run.DBPath))
	if err != nil {
		panic(err)
	}
	if out := run.SyncTo(pt.exec); !out.Reached {
		r.Count("inconclusive-"+outcomeClass(out), 1)
		r.Note("executing block of %s not applied: %s", pt.name, out)
		return
	}
	run.D.Close()
	run.D = nil
	post, err := ReadLedger(drive.DBFileOf(run.DBPath))
	if err != nil {
		panic(err)
	}

	// ---- the model
	H := pt.exec
	spot := post.Rates[H]
	bal := map[string]int64{}
	for a, v := range pre.Balances[hex.EncodeToString(R[:])] {
		bal[a] = int64(v)
	}
	var avgS func(a string) uint64
	if H >= era.PIP10 {
		win := post.AvgWindows(post.LastRatedBefore(H), era.AvgPeriod)
		w0 := win[0]
		avgS = func(a string) uint64 { return post.AvgOver(a, w0, era.AvgPeriod/2) }
		if len(win) > 1 {
			r.Note("averaging window ambiguous at %s (should not happen: all blocks graded)", pt.name)
		}
	}
	bankEra := H >= era.ConvLimit && H < era.V20
	mismatches := 0
	for i, p := range pairs {
		key := fmt.Sprintf("%s/%s>%s", pt.name, p.src, p.dst)
		if _, second := firsts[i]; second {
			key += "/second-in-batch"
		}
		if bankEra && p.dst == "PEG" {
			continue // C16
		}
		if !c.Want(key) && c.Only != "" {
			continue
		}
		r.Eval()
		r.NonTrivial(key)
		amount := int64(1000 + i + 1)
		forbidden := ""
		switch {
		case p.dst == "pFCT" && H >= era.OneWayFCT:
			forbidden = "pFCT is one-way"
		case c13Small[p.dst] && H >= era.OneWaySmall:
			forbidden = "small-cap asset / PEG is one-way"
		case p.dst == "PEG" && H >= era.V20:
			forbidden = "no conversion into PEG from 2.0"
		case spot[p.src] == 0 || spot[p.dst] == 0:
			forbidden = "zero rate"
		case avgS != nil && (avgS(p.src) == 0 || avgS(p.dst) == 0):
			forbidden = "average unavailable"
		}
		wantExec := false
		var wantAmt, firstAmt, firstOut int64
		if fa, ok := firsts[i]; ok {
			firstAmt = fa
			// the preceding conversion pUSD->pEUR must itself be allowed at this point, else the batch says nothing about the pair
			if spot["pUSD"] == 0 || spot["pEUR"] == 0 || (avgS != nil && (avgS("pUSD") == 0 || avgS("pEUR") == 0)) {
				continue
			}
			src, dst := spot["pUSD"], spot["pEUR"]
			if avgS != nil {
				src, dst = minU(src, avgS("pUSD")), maxU(dst, avgS("pEUR"))
			}
			firstOut, _ = RefConvert(firstAmt, src, dst)
		}
		if forbidden == "" && bal[p.src] >= amount+firstAmt {
			src, dst := spot[p.src], spot[p.dst]
			if avgS != nil {
				src, dst = minU(src, avgS(p.src)), maxU(dst, avgS(p.dst))
			}
			if x, ok := RefConvert(amount, src, dst); ok {
				wantExec, wantAmt = true, x
			}
		}
		if wantExec {
			bal[p.src] -= amount
			bal[p.dst] += wantAmt
			if firstAmt > 0 {
				bal["pUSD"] -= firstAmt
				bal["pEUR"] += firstOut
			}
		}
		eh := fake.EntryHash(drive.IDs.TX, entries[i])
		ehx := hex.EncodeToString(eh[:])
		rows := post.Batches[ehx]
		gotExec, gotAmt := false, int64(0)
		status := int64(0)
		if len(rows) == 1 {
			status = rows[0].Executed
			gotExec = status > 0
			if txs := post.Txs[ehx]; len(txs) >= 1 {
				gotAmt = txs[len(txs)-1].ToAmount // the pair is the last transaction of its batch
			}
		}
		r.Outcome(fmt.Sprintf("model-exec=%v", wantExec))
		if gotExec != wantExec || (wantExec && gotAmt != wantAmt) {
			mismatches++
			cls := "forbidden-conversion-executed"
			if wantExec && !gotExec {
				cls = "allowed-conversion-not-executed"
			} else if wantExec && gotExec {
				cls = "executed-with-wrong-amount"
			}
			why := forbidden
			if why == "" {
				why = "allowed"
			}
			r.Violate(core.Violation{Key: key, Signature: fmt.Sprintf("C13:%s:%s:%s", cls, pt.name, c13Class(p.src, p.dst, forbidden)),
				Desc: fmt.Sprintf("%s: %s -> %s amount %d executing at %d: model: execute=%v amount=%d (%s); daemon: status=%d to_amount=%d", pt.name, p.src, p.dst, amount, H, wantExec, wantAmt, why, status, gotAmt)})
		}
	}
	// aggregate: every balance of the rich address
	got := post.Balances[hex.EncodeToString(R[:])]
	var diffs []string
	for i := 0; i < 62; i++ {
		a := assetName(i)
		if bankEra && a == "PEG" {
			continue
		}
		if int64(got[a]) != bal[a] {
			diffs = append(diffs, fmt.Sprintf("%s: model %d daemon %d", a, bal[a], got[a]))
		}
	}
	if len(diffs) > 0 && !(bankEra) {
		if len(diffs) > 8 {
			diffs = append(diffs[:8], "…")
		}
		r.Violate(core.Violation{Key: pt.name + "/aggregate", Signature: "C13:balances-differ-from-model:" + pt.name,
			Desc: fmt.Sprintf("%s: after the executing block the rich address's balances differ from the model although %d per-entry statuses disagree", pt.name, mismatches), Detail: diffs})
	}
	r.Sample(map[string]interface{}{"era_point": pt.name, "executing_height": H, "entries": len(pairs), "first": fmt.Sprint(pairs[0]), "last": fmt.Sprint(pairs[len(pairs)-1])})
}

func c13Class(src, dst, forbidden string) string {
	if forbidden != "" {
		return strings.ReplaceAll(forbidden, " ", "-")
	}
	return "allowed"
}

package props

import (
	"github.com/Factom-Asset-Tokens/factom"
	"github.com/pegnet/pegnetd/fat/fat2"
	"fmt"
	"os"
	"sort"
	"strings"

	"pegverif/canon"
	"pegverif/core"
	"pegverif/drive"
	"pegverif/fake"
	"pegverif/kit"
	"pegverif/sqlw"
)

// C09 Restart independence: explicit-state BFS over {block(G1), block(G2), block(U), restart}.
func init() {
	core.Register(&core.Prop{
		ID: "C09", Level: "model_checking",
		Rule: "explicit-state breadth-first search on the real node: state = (chain prefix, database file, rolling-average cache); events = append block G1 (graded, rates R1) | G2 (graded, rates R2) | U (ungraded), each carrying one conversion entry so that every graded block executes pending conversions priced with the averages, or restart (fresh node.NewPegnetd on the same file: cache empty); all event sequences up to the depth bound, deduplicated by (prefix, ledger hash, cache); invariant: every state reached for one chain prefix has the same ledger; transitions = real block applications / restarts; non-trivial = a state whose cache differs from the never-restarted one",
		Assumptions: []string{"PIP-10 active with AveragePeriod 4 (thorough: also 6)", "state cloning = file copy + deep copy of the three exported cache fields; the probe in C10 validates that this is the whole state"},
		Run:         runC09,
	})
}

type c09State struct {
	prefix   string // e.g. "1U2" block types so far
	dir      string
	cache    cacheCopy
	restarts string // event history, e.g. "1 U R 2"
	ledger   string // hash
	dump     canon.Dump
	never    bool // reached without any restart
	div      bool // the ledger already differs from the reference state of the same prefix (descendants only repeat that divergence)
}

func runC09(c *core.Ctx, r *core.Result) {
	periods := []uint64{4}
	depth := 6
	if c.Thorough() {
		periods = []uint64{4, 6}
		depth = 8
	}
	for _, p := range periods {
		c09Explore(c, r, p, depth, drive.StPIP10)
	}
	// the same search without rolling averages (2.0.2 era): everything else a restart could disturb (holding table,
	// grading bookkeeping, start-up migrations), with the known window finding out of the picture
	c09Explore(c, r, 4, depth-1, drive.StV202)
	// the window crosses the 2.0.2, 2.0.4, mint-burn and PIP-10 activations, every block also carrying a transfer to the
	// burn address: whatever a running node decides once per process (first use) meets a restart on either side of a rule change
	c09Explore(c, r, 4, depth, c09Cross)
	// the window ends ON the second staking-snapshot height (576; the first snapshot, 432, lies in the prefix): the last block
	// values the holders' stakes, with fall-back rates when it has none of its own, after any placement of restarts
	c09Explore(c, r, 4, depth-1, c09Snapshot)
	// who is a top PEG holder changes through a block that only DEBITS PEG (a holder burns all of it in a block without price
	// records), around blocks whose 25 staking records need that holder to be graded; the staking records quote pEUR out of band,
	// so whether they are graded shows in the recorded rates
	c09Explore(c, r, 4, depth-2, c09Holders)
}

const (
	c09Cross    = -1
	c09Snapshot = -2
	c09Holders  = -3
)

const c09HolderKey = 30 // a PEG holder whose staking record is among the 25 of an S block, and who can burn all its PEG (B block)

func keyPtr(k int) *factom.FsAddress { s := kit.Key(k); return &s }

func c09Block(b *drive.Builder, typ byte) {
	h := b.Next()
	s := drive.BlockSpec{}
	switch typ {
	case '1':
		s.Rates = R1()
	case '2':
		s.Rates = R2().With("PEG", uint64(3e7+h%7*1e6))
	}
	s.OPRPayTo = kit.AddrStr(KM)
	if typ == 'B' || typ == 'S' {
		X := kit.Addr(c09HolderKey)
		sr := R1().With("EUR", R1()[kit.AssetIndex("EUR")]*5/2)
		if typ == 'S' {
			// graded; 24 staking records by A and one by X
			s.Rates = R1()
			s.SPR = append(sprSet(b.Era, h, sr, AddrA[:], KA, 24), kit.SPRSpec{Version: b.Era.SPRVersion(h), Height: int32(h), Rates: sr, Coinbase: kit.AddrStr(799), ID: "sX", Staker: X[:], SignWith: keyPtr(c09HolderKey)}.Entry())
		} else {
			// no price records, 24 staking records (too few to be graded, but every one of them is checked against the top holders);
			// X sends whatever PEG it holds to the burn address: a debit only
			s.SPR = sprSet(b.Era, h, sr, AddrA[:], KA, 24)
			s.TX = []fake.Entry{b.Tx(c09HolderKey, kit.Transfer(X, "PEG", 10e8, GlobalBurn()))}
		}
		b.Add(s)
		return
	}
	// one conversion per block; amount varies with the height so that entries are distinct
	s.TX = []fake.Entry{b.Tx(KA, kit.Conversion(AddrA, "PEG", uint64(1e8+uint64(h)*1000), "pUSD"))}
	if strings.HasPrefix(b.Era.Name, "activations-inside") {
		s.TX = append(s.TX, b.Tx(KA, kit.Transfer(AddrA, "pUSD", uint64(1e8+uint64(h)), GlobalBurn())))
	}
	b.Add(s)
}

func c09Explore(c *core.Ctx, r *core.Result, period uint64, depth int, stage int) {
	var era drive.Era
	if stage == c09Holders {
		era = drive.EraStage(drive.StV204Burn)
		era.Name = "top-holder-set-changes"
	} else if stage == c09Snapshot {
		// without averaging: the known window finding (C09-K1) would otherwise explain away whatever differs here
		era = drive.EraStage(drive.StV204Burn)
		era.Name = "window-ends-at-snapshot-576"
	} else if stage == c09Cross {
		era = drive.EraStage(drive.StV20Dev)
		first := era.Base + 1 + 4 + uint32(period) // FundStd's four blocks and the rated prefix precede the window
		era.V202, era.OneWaySmall, era.V204, era.V204Burn, era.PIP10 = first+1, first+1, first+2, first+3, first+4
		era.Name = "activations-inside-window"
	} else {
		era = drive.EraStage(stage)
		era.Name = fmt.Sprintf("pip10-avg%d", period)
		if stage != drive.StPIP10 {
			era.Name = "v202-no-averaging"
		}
	}
	era.AvgPeriod = period
	era.Apply()
	root := drive.Scratch("c09")
	defer os.RemoveAll(root)

	// prefix: funded, window fully rated; keep the uninterrupted daemon's cache
	b0 := drive.NewBuilder(era)
	FundStd(b0)
	if stage == c09Holders {
		b0.Add(drive.BlockSpec{Rates: R1(), OPRPayTo: kit.AddrStr(KM), TX: []fake.Entry{b0.Tx(KA, kit.Transfer(AddrA, "PEG", 10e8, kit.Addr(c09HolderKey)))}})
	}
	if stage == c09Snapshot {
		for b0.Next() < 431 {
			b0.AddEmpty(1)
		}
		b0.Add(drive.BlockSpec{Rates: R1(), OPRPayTo: kit.AddrStr(KM)})
		b0.Add(drive.BlockSpec{Rates: R1(), OPRPayTo: kit.AddrStr(KM)}) // 432: first snapshot
		for b0.Next() < 576-uint32(depth)+1-uint32(period) {
			b0.AddEmpty(1)
		}
	}
	for i := uint64(0); i < period; i++ {
		b0.Add(drive.BlockSpec{Rates: R1(), OPRPayTo: kit.AddrStr(KM)})
	}
	d0, err := drive.Open(root+"/s0/db", fake.NewNode(b0.Chain), nil, false)
	if err != nil {
		panic("harness: " + err.Error())
	}
	if out := d0.SyncTo(b0.Chain.Tip(), drive.SyncOpts{}); !out.Reached {
		panic("harness: C09 prefix: " + out.String())
	}
	if stage == c09Snapshot && b0.Next()+uint32(depth)-1 != 576 {
		panic(fmt.Sprintf("harness: C09 window-ends-at-snapshot: the window starts at %d with depth %d", b0.Next(), depth))
	}
	if stage == c09Cross && b0.Next() != era.V202-1 {
		panic(fmt.Sprintf("harness: C09 activations-inside-window: the window starts at %d, 2.0.2 at %d", b0.Next(), era.V202))
	}
	start := &c09State{prefix: "", dir: root + "/s0", cache: takeCache(d0), never: true}
	d0.Close()

	// shard by the first two blocks of the window
	firsts := []string{}
	alpha := "12U"
	if stage == c09Holders {
		alpha = "BS1"
	}
	for _, a := range alpha {
		for _, bb := range alpha {
			firsts = append(firsts, string(a)+string(bb))
		}
	}
	nstate := 0
	for fi, first := range firsts {
		if !(c.Mine(fi) || c.Only != "") {
			continue
		}
		if c.Only != "" && !strings.HasPrefix(c.Only, era.Name+"/"+first) {
			continue
		}
		// BFS restricted to chains starting with `first`
		frontier := []*c09State{start}
		seen := map[string]bool{}
		byPrefix := map[string]*c09State{} // first state seen for a prefix (reference)
		reported := map[string]bool{}
		for lvl := 0; lvl < depth && len(frontier) > 0; lvl++ {
			var next []*c09State
			for _, st := range frontier {
				if c.Expired() {
					r.Capped(fmt.Sprintf("deadline at depth %d of subtree %s", lvl, first))
					frontier = nil
					next = nil
					break
				}
				types := alpha
				if lvl < 2 {
					types = string(first[lvl])
				}
				for _, restart := range []bool{false, true} {
					if restart && lvl == 0 {
						// the prefix daemon is the uninterrupted one; a restart before the first window block is still a restart placement
					}
					for _, t := range types {
						nstate++
						ns := c09Apply(era, b0, st, byte(t), restart, fmt.Sprintf("%s/n%d", root, nstate))
						r.Transitions++
						if restart {
							r.Transitions++
						}
						if ns == nil {
							r.Count("inconclusive-block-not-applied", 1)
							continue
						}
						r.Eval()
						key := ns.prefix + "|" + ns.ledger + "|" + ns.cache.String()
						ref := byPrefix[ns.prefix]
						ns.div = ref != nil && ref.ledger != ns.ledger
						if ref == nil {
							byPrefix[ns.prefix] = ns
							ref = ns
						} else if ref.ledger != ns.ledger && st.div {
							r.Count("descendants-of-a-diverged-state", 1)
						} else if ref.ledger != ns.ledger && !reported[ns.prefix] {
							reported[ns.prefix] = true
							uInWindow := strings.Contains(ns.prefix, "U")
							cls := "all-graded"
							if uInWindow {
								cls = "ungraded-in-window"
							}
							// what differs: named by its cause when the two nodes priced with averaging windows of different
							// length (the count-vs-height trimming), by the differing tables otherwise
							what := strings.Join(canon.TablesDiffering(ref.dump, ns.dump), "+")
							// (only where averages are in use: before the PIP-10 activation the windows exist but price nothing)
							if tipH := b0.Chain.Tip() + uint32(len(ns.prefix)); tipH >= era.PIP10 && len(ref.cache.data[fat2.PTickerUSD]) != len(ns.cache.data[fat2.PTickerUSD]) {
								what = "averaging-windows-of-different-length"
								// the known count-versus-height trimming leaves both windows as SUFFIXES of the recorded rate
								// history, of different length; a window holding anything else is a different defect
								if lv, e := ReadLedger(drive.DBFileOf(ns.dir + "/db")); e == nil {
									if !c09WindowIsSuffix(ref.cache, lv) || !c09WindowIsSuffix(ns.cache, lv) {
										what = "averaging-window-is-not-a-suffix-of-the-recorded-rates"
									}
								}
							}
							vkey := fmt.Sprintf("%s/%s/[%s]vs[%s]", era.Name, ns.prefix, ref.restarts, ns.restarts)
							if c.Want(vkey) || c.Only != "" {
								r.Violate(core.Violation{Key: vkey,
									Signature: fmt.Sprintf("C09:ledger-differs:%s:%s", cls, what),
									Desc:      fmt.Sprintf("chain %s (1/2 = graded with rates R1/R2, U = ungraded) gives different ledgers for event sequences [%s] and [%s] (R = restart)", ns.prefix, ref.restarts, ns.restarts),
									Detail:    append(joinDiff(ref.dump, ns.dump), "cache A: "+ref.cache.String(), "cache B: "+ns.cache.String())})
							}
						}
						if seen[key] {
							os.RemoveAll(ns.dir)
							continue
						}
						seen[key] = true
						r.AddState(era.Name + "|" + key)
						if !ns.never {
							r.NonTrivial(era.Name + "|" + key)
						}
						if len(r.Samples) < 5 && restart {
							r.Sample(map[string]string{"chain": ns.prefix, "events": ns.restarts, "ledger": ns.ledger, "cache": ns.cache.String()})
						}
						if ns != ref {
							ns.dump = nil
						}
						next = append(next, ns)
					}
				}
			}
			// states of the finished level are no longer needed on disk
			for _, st := range frontier {
				if st != start {
					os.RemoveAll(st.dir)
				}
			}
			frontier = next
		}
		for _, st := range frontier {
			os.RemoveAll(st.dir)
		}
		r.Traces += len(byPrefix)
		if nstate >= 5 && len(byPrefix) == 0 {
			panic(fmt.Sprintf("harness: C09 %s: none of %d blocks could be applied", era.Name, nstate))
		}
	}
	var ks []string
	_ = ks
	sort.Strings(ks)
}

// c09WindowIsSuffix reports whether the cached window holds, for each probed asset, exactly the recorded rates
// of the last len(window) rated heights up to the cache height, oldest first.
func c09WindowIsSuffix(c cacheCopy, v *LedgerView) bool {
	var rated []uint32
	for _, h := range v.RatedHeights() {
		if h <= c.height {
			rated = append(rated, h)
		}
	}
	for _, t := range []fat2.PTicker{fat2.PTickerPEG, fat2.PTickerEUR, fat2.PTickerFCT, fat2.PTickerXBT, fat2.PTickerJPY} {
		win := c.data[t]
		if len(win) > len(rated) {
			return false
		}
		hs := rated[len(rated)-len(win):]
		for i, h := range hs {
			if v.Rates[h][t.String()] != win[i] {
				return false
			}
		}
	}
	return true
}

// c09Apply clones the state, optionally restarts (drops the cache), appends one block of type t and applies it.
func c09Apply(era drive.Era, b0 *drive.Builder, st *c09State, t byte, restart bool, dir string) *c09State {
	era.Apply()
	if err := drive.CopyDB(st.dir+"/db", dir+"/db"); err != nil {
		panic("harness: " + err.Error())
	}
	// rebuild the chain for this prefix
	b := b0.Fork()
	for i := 0; i < len(st.prefix); i++ {
		c09Block(b, st.prefix[i])
	}
	c09Block(b, t)
	// a restart runs the real start-up (node.NewPegnetd); "no restart" is a clone of the running node:
	// no start-up code at all, the cache carried over
	var d *drive.Daemon
	var err error
	if restart {
		d, err = drive.Open(dir+"/db", fake.NewNode(b.Chain), nil, false)
	} else {
		d, err = drive.Continue(dir+"/db", fake.NewNode(b.Chain), nil, false)
	}
	if err != nil {
		panic("harness: " + err.Error())
	}
	ev := st.restarts
	if restart {
		ev += " R"
	} else {
		st.cache.restore(d)
	}
	ev += " " + string(t)
	_ = sqlw.Hooks{}
	out := d.SyncTo(b.Chain.Tip(), drive.SyncOpts{})
	ns := &c09State{prefix: st.prefix + string(t), dir: dir, restarts: strings.TrimSpace(ev), never: st.never && !restart}
	ns.cache = takeCache(d)
	d.Close()
	if !out.Reached {
		os.RemoveAll(dir)
		return nil
	}
	dump, err := canon.File(drive.DBFileOf(dir+"/db"), canon.Ledger)
	if err != nil {
		panic("harness: " + err.Error())
	}
	ns.dump = dump
	ns.ledger = dump.Hash()
	return ns
}

package props

import (
	"math"
	"fmt"
	"sort"
	"strings"

	"pegverif/core"
	"pegverif/drive"
	"pegverif/fake"
	"pegverif/kit"
)

// C08 Sync liveness: no chain content can crash the daemon or wedge a block.
func init() {
	core.Register(&core.Prop{
		ID: "C08", Level: "exploration",
		Rule: "adversarial entries for the OPR, SPR and transaction chains (ext-id count 0-5 x length matrix; content empty/1 byte/10KB/truncated at every stride/byte substitutions {00,7f,80,ff}; every protobuf/JSON field at its edge; winning record sets quoting 2^63-1, 2^63, 2^64-1; repeated entry hashes in every placement; valid-signed batches with edge semantics; snapshot heights with/without rates) are fed through the real block pipeline on top of funded ledgers in several eras, packed into blocks and bisected on failure; an evaluation = one entry (or one scenario chain) whose block was applied; non-trivial = distinct (era, family, entry label); oracle: the daemon reaches the tip: no panic, no log.Fatal, no height failing 3 consecutive attempts with a healthy node and database",
		Assumptions: []string{"fake Factom node is healthy (no injected faults in this check)", "SQLite and the Go runtime", "a wedge is declared after 3 identical failed attempts at one height: every retry is a deterministic function of unchanged database + chain"},
		Run:         runC08,
	})
}

func c08Eras(thorough bool) []drive.Era {
	es := []drive.Era{drive.EraStage(drive.StTx), drive.EraStage(drive.StBank), drive.EraStage(drive.StV4), drive.EraStage(drive.StV20), drive.EraStage(drive.StV202), drive.EraStage(drive.StPIP10)}
	if thorough {
		es = append(es, drive.EraStage(drive.StV1), drive.EraStage(drive.StV2), drive.EraStage(drive.StPegPrice), drive.EraStage(drive.StOneWayFCT), drive.EraStage(drive.StV20Dev), drive.EraStage(drive.StV204Burn))
	}
	return es
}

// c08Prefix: funded ledger with one pending conversion and one rejected transfer present.
func c08Prefix(b *drive.Builder) {
	FundStd(b)
	if b.Next() >= b.Era.TxConv {
		b.Add(drive.BlockSpec{TX: []fake.Entry{
			b.Tx(KA, kit.Conversion(AddrA, "pUSD", 3e8, "pEUR")), // stays pending (block ungraded)
			b.Tx(KB, kit.Transfer(AddrB, "pUSD", 7e8, AddrC)),   // rejected: B holds nothing
		}})
	}
}

type c08Fail struct {
	out drive.Outcome
}

// c08TryBlock applies: [block with the given adversarial entries (+ optionally a graded OPR set)] + two graded blocks.
func c08TryBlock(w *World, advs []Adv, graded bool) drive.Outcome {
	run := w.Fork()
	defer run.Close()
	b := run.B
	s := drive.BlockSpec{}
	if graded {
		s.Rates = R1()
		s.OPRPayTo = kit.AddrStr(KM)
	}
	for _, a := range advs {
		switch a.Chain {
		case "opr":
			s.ExtraOPR = append(s.ExtraOPR, a.E)
		case "spr":
			s.SPR = append(s.SPR, a.E)
		case "tx":
			s.TX = append(s.TX, a.E)
		}
	}
	b.Add(s)
	b.Add(drive.BlockSpec{Rates: R2(), OPRPayTo: kit.AddrStr(KM)})
	b.Add(drive.BlockSpec{Rates: R1(), OPRPayTo: kit.AddrStr(KM)})
	return run.Sync()
}

// c08FindOne returns one minimal failing subset of a failing set: it descends
// into the first failing half; when neither half fails alone (interaction) it
// shrinks by dropping single elements.
func c08FindOne(w *World, advs []Adv, graded bool, budget *int) []Adv {
	cur := advs
	for len(cur) > 1 && *budget > 0 {
		mid := len(cur) / 2
		*budget--
		if out := c08TryBlock(w, cur[:mid], graded); !out.Reached {
			cur = cur[:mid]
			continue
		}
		*budget--
		if out := c08TryBlock(w, cur[mid:], graded); !out.Reached {
			cur = cur[mid:]
			continue
		}
		// interaction
		c2 := append([]Adv{}, cur...)
		for i := 0; i < len(c2) && *budget > 0 && len(c2) > 2; {
			try := append(append([]Adv{}, c2[:i]...), c2[i+1:]...)
			*budget--
			if out := c08TryBlock(w, try, graded); !out.Reached {
				c2 = try
			} else {
				i++
			}
		}
		return c2
	}
	return cur
}

// c08Minimize isolates failing entries class by class: find one minimal failing
// subset, report it, drop every entry of its class(es), repeat until the rest passes.
func c08Minimize(w *World, advs []Adv, graded bool, budget *int) [][]Adv {
	var res [][]Adv
	remaining := advs
	for iter := 0; iter < 12 && len(remaining) > 0 && *budget > 0; iter++ {
		if iter > 0 {
			*budget--
			if out := c08TryBlock(w, remaining, graded); out.Reached {
				break
			}
		}
		one := c08FindOne(w, remaining, graded, budget)
		res = append(res, one)
		drop := map[string]bool{}
		for _, a := range one {
			drop[a.Class] = true
		}
		var rest []Adv
		for _, a := range remaining {
			if !drop[a.Class] {
				rest = append(rest, a)
			}
		}
		remaining = rest
	}
	return res
}

func c08Sig(era drive.Era, family string, cls []string, out drive.Outcome) string {
	oc := outcomeClass(out)
	e := out.LastErr
	if out.Died {
		e = out.DiedMsg
	}
	sort.Strings(cls)
	return fmt.Sprintf("C08:%s:%s:%s:%s", family, strings.Join(cls, "+"), oc, errClass(e))
}

func runC08(c *core.Ctx, r *core.Result) {
	idx := 0
	next := func() bool { idx++; return c.Mine(idx) || c.Only != "" }
	stride := 8
	if c.Thorough() {
		stride = 1
	}
	for _, era := range c08Eras(c.Thorough()) {
		if c.Expired() {
			r.Capped("deadline before era " + era.Name)
			return
		}
		// the funded prefix of benign blocks must sync: if it does not, that is this property's violation, not a harness error
		w, werr := NewWorld(era, c08Prefix)
		if werr != nil {
			we, ok := werr.(*WorldError)
			if !ok {
				panic("harness: " + werr.Error())
			}
			r.Eval()
			r.Violate(core.Violation{Key: era.Name + "/funding-prefix", Signature: c08Sig(era, "benign-prefix", []string{"funding"}, we.Out),
				Desc: "a chain of ordinary blocks (mining, burns, conversions, transfers) cannot be synced: " + we.Out.String()})
			continue
		}
		world := func() *World { return w }
		defer w.Close()

		// ---------- family 1: packed inert entries, per chain and content family
		type pack struct {
			name   string
			graded bool
			advs   func() []Adv
		}
		nextH := func() uint32 { return world().B.Next() }
		stakerA := AddrA[:]
		validOPR := func() fake.Entry {
			return kit.OPRSpec{Version: era.OPRVersion(nextH()), Height: int32(nextH()), Prev: world().B.Prev, Rates: R1(), Coinbase: kit.AddrStr(KM), ID: "adv", Nonce: []byte{7}}.Entry()
		}
		validSPR := func() fake.Entry {
			k := kit.Key(KA)
			return kit.SPRSpec{Version: era.SPRVersion(nextH()), Height: int32(nextH()), Rates: R1(), Coinbase: kit.AddrStr(KM), ID: "adv", Staker: stakerA, SignWith: &k}.Entry()
		}
		packs := []pack{
			{"opr-structural", true, func() []Adv { return advStructural("opr", validOPR().Content) }},
			{"opr-structural-ungraded", false, func() []Adv { return advStructural("opr", validOPR().Content) }},
			{"opr-content", true, func() []Adv { return advContentMutations("opr", validOPR(), stride, "opr-content") }},
			{"opr-semantic", true, func() []Adv { return advOPRSemantic(era, nextH(), world().B.Prev) }},
			{"spr-structural", true, func() []Adv { return advStructural("spr", validSPR().Content) }},
			{"spr-content", true, func() []Adv { return advContentMutations("spr", validSPR(), stride, "spr-content") }},
			{"spr-semantic", true, func() []Adv { return advSPRSemantic(era, nextH(), stakerA, KA) }},
			{"tx-adversarial", true, func() []Adv { return advTx(world().B) }},
			{"tx-adversarial-ungraded", false, func() []Adv { return advTx(world().B) }},
			{"tx-content", true, func() []Adv {
				valid := kit.SignBatch(drive.IDs.TX, world().B.Salt(), kit.Key(KA), kit.Transfer(AddrA, "pUSD", 1, AddrB), kit.Conversion(AddrA, "pUSD", 2, "pEUR"))
				return advContentMutations("tx", valid, stride, "tx-content")
			}},
		}
		for _, p := range packs {
			key := fmt.Sprintf("%s/pack/%s", era.Name, p.name)
			if !next() || !c.Want(key) {
				continue
			}
			if c.Expired() {
				r.Capped("deadline before " + key)
				return
			}
			var advs []Adv
			for _, a := range p.advs() {
				if entrySize(a.E) <= 10240 { // Factom entries cannot exceed 10 KiB
					advs = append(advs, a)
				}
			}
			// v1 OPR JSON vs protobuf does not matter for structural packs
			out := c08TryBlock(world(), advs, p.graded)
			r.Evaluations += len(advs)
			for _, a := range advs {
				r.NonTrivial(era.Name + "|" + p.name + "|" + a.Label)
			}
			r.Outcome("pack:" + outcomeClass(out))
			if len(r.Samples) < 3 && len(advs) > 0 {
				r.Sample(map[string]interface{}{"scenario": key, "entries": len(advs), "first": advs[0].Label, "last": advs[len(advs)-1].Label, "outcome": out.String()})
			}
			if out.Reached {
				continue
			}
			budget := 200
			for _, min := range c08Minimize(world(), advs, p.graded, &budget) {
				o2 := c08TryBlock(world(), min, p.graded)
				if o2.Reached {
					continue // flaky minimisation would be a harness problem; the pack failure is reported below
				}
				var cls, labels []string
				seen := map[string]bool{}
				for _, a := range min {
					if !seen[a.Class] {
						cls = append(cls, a.Class)
						seen[a.Class] = true
					}
					labels = append(labels, a.Label)
				}
				if len(labels) > 6 {
					labels = append(labels[:6], fmt.Sprintf("… (%d entries)", len(min)))
				}
				r.Violate(core.Violation{Key: key, Signature: c08Sig(era, p.name, cls, o2),
					Desc: "block with adversarial entries cannot be applied: " + o2.String(), Detail: labels})
			}
		}

		// ---------- family 2: winning record sets quoting extreme rates
		for _, who := range []string{"opr", "spr"} {
			if who == "spr" && era.V20 != 0 {
				continue
			}
			for _, v := range []uint64{1, 1<<63 - 1, 1 << 63, 1<<64 - 1} {
				for _, scope := range []string{"USD", "PEG", "all"} {
					key := fmt.Sprintf("%s/extreme/%s/%s=%d", era.Name, who, scope, v)
					if !next() || !c.Want(key) {
						continue
					}
					r.Eval()
					r.NonTrivial(key)
					rates := R1()
					if scope == "all" {
						rates = kit.FlatRates(62, v)
					} else {
						rates = rates.With(scope, v)
					}
					run := world().Fork()
					b := run.B
					pend := b.Tx(KA, kit.Conversion(AddrA, "pUSD", 5e8, "pEUR"))
					b.Add(drive.BlockSpec{Rates: R1(), OPRPayTo: kit.AddrStr(KM), TX: []fake.Entry{pend}})
					s := drive.BlockSpec{}
					if who == "opr" {
						s.Rates = rates
						s.OPRPayTo = kit.AddrStr(KM)
					} else {
						s.SPR = sprSet(era, b.Next(), rates, AddrA[:], KA, 25)
					}
					s.TX = []fake.Entry{b.Tx(KA, kit.Conversion(AddrA, "pUSD", 6e8, "pEUR"))}
					b.Add(s)
					b.Add(drive.BlockSpec{Rates: R2(), OPRPayTo: kit.AddrStr(KM)})
					b.Add(drive.BlockSpec{Rates: R1(), OPRPayTo: kit.AddrStr(KM)})
					out := run.Sync()
					run.Close()
					r.Outcome("extreme:" + outcomeClass(out))
					if !out.Reached {
						// the value the daemon decodes: version-1 price records carry float64 dollars, so 2^63-1 arrives as 2^63
						dec := v
						if who == "opr" && era.OPRVersion(b.Chain.Tip()) == 1 {
							if f := math.Round(float64(v) / 1e8 * 1e8); f >= 9223372036854775808.0 {
								dec = 1 << 63
							}
						}
						vc := "2^63-1"
						switch {
						case dec == 1:
							vc = "1"
						case dec >= 1<<63:
							vc = ">=2^63"
						}
						r.Violate(core.Violation{Key: key, Signature: c08Sig(era, "extreme-rates", []string{who + "-winners-rate-" + vc}, out),
							Desc: "winning records quoting an extreme rate make the block unsyncable: " + out.String()})
					}
				}
			}
		}

		// ---------- family 3: repeated entry hashes
		if era.TxConv == 0 {
			for _, kind := range c06Kinds(era) {
				for _, pat := range []int{0xF, 0x0, 0xA} {
					for _, pl := range c06Placements(4, 1) {
						key := fmt.Sprintf("%s/dup/%s/%x/%s", era.Name, kind.name, pat, pl[0])
						if !next() || !c.Want(key) {
							continue
						}
						r.Eval()
						r.NonTrivial(key)
						_, out, _ := c06Run(world(), kind, 4, pat, pl, r, false)
						r.Outcome("dup:" + outcomeClass(out))
						if !out.Reached {
							where := "later-block"
							if pl[0].blk == 0 {
								where = "same-block"
							}
							r.Violate(core.Violation{Key: key, Signature: c08Sig(era, "duplicate-entry", []string{kind.name + "-" + where}, out),
								Desc: "repeating an entry that is not yet executed (pending or rejected) makes the block unsyncable: " + out.String()})
						}
					}
				}
			}
		}

		// ---------- family 4: valid, signed batches with edge semantics (one chain each)
		if era.TxConv == 0 {
			for _, sb := range c08SemanticBatches(era) {
				key := fmt.Sprintf("%s/batch/%s", era.Name, sb.name)
				if !next() || !c.Want(key) {
					continue
				}
				r.Eval()
				r.NonTrivial(key)
				run := world().Fork()
				b := run.B
				b.Add(drive.BlockSpec{Rates: R1(), OPRPayTo: kit.AddrStr(KM), TX: []fake.Entry{sb.entry(b)}})
				b.Add(drive.BlockSpec{Rates: R2(), OPRPayTo: kit.AddrStr(KM)})
				b.Add(drive.BlockSpec{Rates: R1(), OPRPayTo: kit.AddrStr(KM)})
				out := run.Sync()
				run.Close()
				r.Outcome("batch:" + outcomeClass(out))
				if !out.Reached {
					r.Violate(core.Violation{Key: key, Signature: c08Sig(era, "signed-batch", []string{sb.class}, out),
						Desc: "a well-signed batch makes the block unsyncable: " + out.String(), Detail: []string{fmt.Sprint(sb.txs)}})
				}
			}
		}
	}

	// ---------- family 4b: valid oracle AND staking price records that disagree (out of each other's tolerance band),
	// in every 2.x era: whatever the daemon decides to record, the block must be applied
	bidx := 0
	for _, st := range []int{drive.StV20, drive.StV20Dev, drive.StV202, drive.StPIP10} {
		era := drive.EraStage(st)
		for _, dev := range []struct {
			name string
			mul  uint64
			div  uint64
		}{{"spr-eur-x2.5", 5, 2}, {"spr-eur-+0.5%", 201, 200}, {"spr-eur-+5%", 21, 20}, {"spr-eur-/3", 1, 3}} {
			for _, pending := range []bool{false, true} {
				bidx++
				key := fmt.Sprintf("%s/band/%s/pending=%v", era.Name, dev.name, pending)
				if !(c.Mine(bidx) || c.Only != "") || !c.Want(key) {
					continue
				}
				r.Eval()
				r.NonTrivial(key)
				out := func() drive.Outcome {
					w, err := NewWorld(era, func(b *drive.Builder) {
						FundStd(b)
						s := drive.BlockSpec{Rates: R1(), OPRPayTo: kit.AddrStr(KM)}
						if pending {
							s.TX = []fake.Entry{b.Tx(KA, kit.Conversion(AddrA, "pUSD", 5e8, "pEUR"))}
						}
						b.Add(s)
						h := b.Next()
						sr := R1().With("EUR", 12e7*dev.mul/dev.div)
						b.Add(drive.BlockSpec{Rates: R1(), OPRPayTo: kit.AddrStr(KM), SPR: sprSet(era, h, sr, AddrA[:], KA, 25),
							TX: []fake.Entry{b.Tx(KA, kit.Transfer(AddrA, "pUSD", 1e8, AddrB))}})
						b.Add(drive.BlockSpec{Rates: R2(), OPRPayTo: kit.AddrStr(KM)})
						b.Add(drive.BlockSpec{Rates: R1(), OPRPayTo: kit.AddrStr(KM)})
					})
					if err != nil {
						if we, ok := err.(*WorldError); ok {
							return we.Out
						}
						panic("harness: " + err.Error())
					}
					w.Close()
					return drive.Outcome{Reached: true}
				}()
				r.Outcome("band:" + outcomeClass(out))
				if !out.Reached {
					r.Violate(core.Violation{Key: key, Signature: c08Sig(era, "opr-spr-disagree", []string{dev.name}, out),
						Desc: "valid oracle and staking price records that disagree with each other make the block unsyncable: " + out.String()})
				}
			}
		}
	}

	// ---------- family 5: snapshot heights with / without rates, per 2.x era
	for _, st := range []int{drive.StV20, drive.StV20Dev, drive.StV202, drive.StPIP10} {
		era := drive.EraStage(st)
		for _, ratesAt := range []string{"none", "prev-only", "at", "both", "at/staking-records-put-eur-out-of-band", "at/staking-records-put-usd-out-of-band", "both/staking-records-put-eur-out-of-band"} {
			for _, stakers := range []bool{false, true} {
				key := fmt.Sprintf("%s/snapshot/rates=%s/stakers=%v", era.Name, ratesAt, stakers)
				if !next() || !c.Want(key) {
					continue
				}
				if c.Expired() {
					r.Capped("deadline before " + key)
					return
				}
				r.Eval()
				r.NonTrivial(key)
				out := c08Snapshot(era, ratesAt, stakers)
				r.Outcome("snapshot:" + outcomeClass(out))
				if !out.Reached {
					r.Violate(core.Violation{Key: key, Signature: c08Sig(era, "snapshot", []string{era.Name + "-rates-" + ratesAt + fmt.Sprintf("-stakers-%v", stakers)}, out),
						Desc: "snapshot height cannot be applied: " + out.String()})
				}
			}
		}
	}
}

// sprSet returns n SPRs with distinct coinbase addresses all naming one staker.
func sprSet(era drive.Era, h uint32, rates kit.Rates, staker []byte, signKey int, n int) []fake.Entry {
	k := kit.Key(signKey)
	var out []fake.Entry
	for i := 0; i < n; i++ {
		out = append(out, kit.SPRSpec{Version: era.SPRVersion(h), Height: int32(h), Rates: rates, Coinbase: kit.AddrStr(700 + i), ID: fmt.Sprintf("s%d", i), Staker: staker, SignWith: &k}.Entry())
	}
	return out
}

// entry signs the batch for the builder's next block (by A unless the batch names its signers, one per transaction).
func (sb c08Batch) entry(b *drive.Builder) fake.Entry {
	if len(sb.signers) == 0 {
		return b.Tx(KA, sb.txs...)
	}
	var ss []kit.Signer
	for _, k := range sb.signers {
		ss = append(ss, kit.Key(k))
	}
	return kit.SignContent(b.Chain.IDs.TX, kit.BatchJSON(sb.txs...), b.Salt(), ss...)
}

type c08Batch struct {
	signers []int
	name, class string
	txs         []kit.Tx
}

func c08SemanticBatches(era drive.Era) []c08Batch {
	A, B := AddrA, AddrB
	var out []c08Batch
	add := func(name, class string, txs ...kit.Tx) { out = append(out, c08Batch{name: name, class: class, txs: txs}) }
	// chained batches: every input is covered on its own, the sum of the inputs is not, and in
	// sequence the batch is covered because an earlier transaction replenishes the spender
	U := uint64(200e8) // A's pUSD after FundStd from 2.0 on (1000 PEG at 0.2)
	if era.Base+1 < era.V20 {
		U = 3000e8 // 1000 pFCT at 3.0
	}
	x := U / 10 * 6
	add("chained-self-transfer", "chained", kit.Transfer(A, "pUSD", x, A), kit.Transfer(A, "pUSD", x, B))
	add("chained-self-transfer-3", "chained", kit.Transfer(A, "pUSD", x, A), kit.Transfer(A, "pUSD", x, A), kit.Transfer(A, "pUSD", x, AddrC))
	// (a batch has exactly one input address, so the replenishing transaction is a self-transfer or a conversion)
	add("chained-conversion-roundtrip", "chained", kit.Conversion(A, "pUSD", x, "pJPY"), kit.Conversion(A, "pUSD", x/2, "pEUR"))
	add("wrapping-transfer-sum", "malformed", kit.Tx{From: A, Asset: "pUSD", Amount: 10e8, To: []kit.Out{{Addr: B, Amount: 1<<63 - 1}, {Addr: AddrC, Amount: 1<<63 - 1}, {Addr: B, Amount: 10e8 + 2}}})
	// the other order: an earlier transaction spends what a later self-transfer would need
	add("spend-all-then-self-transfer", "chained", kit.Transfer(A, "pUSD", U, B), kit.Transfer(A, "pUSD", U, A))
	add("spend-most-then-self-transfer", "chained", kit.Transfer(A, "pUSD", x, B), kit.Transfer(A, "pUSD", x, A))
	add("convert-all-then-self-transfer", "chained", kit.Conversion(A, "pUSD", U, "pEUR"), kit.Transfer(A, "pUSD", U, A))
	add("self-transfer-then-two-spends", "chained", kit.Transfer(A, "pUSD", x, A), kit.Transfer(A, "pUSD", x, B), kit.Transfer(A, "pUSD", x, AddrC))
	add("overspend-in-sum", "chained", kit.Transfer(A, "pUSD", x, B), kit.Transfer(A, "pUSD", x, AddrC))
	add("zero-transfer", "zero-amount", kit.Transfer(A, "pUSD", 0, B))
	add("zero-conversion", "zero-amount", kit.Conversion(A, "pUSD", 0, "pEUR"))
	add("self-transfer", "self", kit.Transfer(A, "pUSD", 5e8, A))
	add("max-transfer", "max-amount", kit.Transfer(A, "pUSD", 1<<63-1, B))
	add("max-conversion", "max-amount", kit.Conversion(A, "pUSD", 1<<63-1, "pEUR"))
	add("tiny-conversion-to-xbt", "dust", kit.Conversion(A, "pUSD", 1, "pXBT"))
	add("conv-to-peg", "to-peg", kit.Conversion(A, "pUSD", 5e8, "PEG"))
	add("conv-huge-to-peg", "to-peg", kit.Conversion(A, "pUSD", 900e8, "PEG"))
	add("peg-request+transfer", "peg-request-mixed-with-transfer", kit.Conversion(A, "pUSD", 5e8, "PEG"), kit.Transfer(A, "pUSD", 1e8, B))
	add("peg-request+conversion", "peg-request-mixed-with-conversion", kit.Conversion(A, "pUSD", 5e8, "PEG"), kit.Conversion(A, "pUSD", 1e8, "pEUR"))
	add("two-peg-requests", "two-peg-requests", kit.Conversion(A, "pUSD", 5e8, "PEG"), kit.Conversion(A, "pEUR", 1e8, "PEG"))
	add("peg-request-then-spend-peg", "deferred-peg-spend", kit.Conversion(A, "pUSD", 5e8, "PEG"), kit.Transfer(A, "PEG", 1e8, B))
	add("convert-then-spend-output", "spend-converted", kit.Conversion(A, "pUSD", 5e8, "pEUR"), kit.Transfer(A, "pEUR", 504e8, B))
	add("conv-to-fct", "to-fct", kit.Conversion(A, "pUSD", 5e8, "pFCT"))
	add("conv-to-dcr", "to-small", kit.Conversion(A, "pUSD", 5e8, "pDCR"))
	add("conv-unheld-asset", "unheld", kit.Conversion(A, "pXBT", 5e8, "pUSD"))
	add("burn-address-transfer", "burn-address", kit.Tx{From: A, Asset: "pUSD", Amount: 2e8, To: []kit.Out{{Addr: GlobalBurn(), Amount: 2e8}}})
	add("burn-between-outputs", "burn-address", kit.Tx{From: A, Asset: "pUSD", Amount: 7e8, To: []kit.Out{{Addr: B, Amount: 1e8}, {Addr: GlobalBurn(), Amount: 1e8}, {Addr: AddrC, Amount: 2e8}, {Addr: OldBurn(), Amount: 1e8}, {Addr: B, Amount: 2e8}}})
	add("zero-amount-outputs-around-funded-ones", "zero-amount", kit.Tx{From: A, Asset: "pUSD", Amount: 5e8, To: []kit.Out{{Addr: B, Amount: 0}, {Addr: AddrC, Amount: 3e8}, {Addr: A, Amount: 0}, {Addr: B, Amount: 2e8}, {Addr: AddrC, Amount: 0}}})
	add("many-outputs", "many-outputs", kit.Tx{From: A, Asset: "pUSD", Amount: 4, To: []kit.Out{{B, 1}, {B, 1}, {A, 1}, {AddrC, 1}}})
	var many []kit.Tx
	for i := 0; i < 40; i++ {
		many = append(many, kit.Transfer(A, "pUSD", 1, B))
	}
	add("40-transfers", "many-txs", many...)
	return out
}

// c08Snapshot runs a chain through the first snapshot height (432) in a 2.x era.
func c08Snapshot(era drive.Era, ratesAt string, stakers bool) drive.Outcome {
	// variants: at the snapshot heights an asset the stakers hold has no usable price (the oracle and staking records
	// disagree about it beyond the tolerance band; a record quoting 0 is not valid and leaves the block ungraded: rates=none)
	variant := ""
	if i := strings.IndexByte(ratesAt, '/'); i >= 0 {
		ratesAt, variant = ratesAt[:i], ratesAt[i+1:]
	}
	at := func(b *drive.Builder, rt kit.Rates) drive.BlockSpec {
		s := drive.BlockSpec{Rates: rt, OPRPayTo: kit.AddrStr(KM)}
		h := b.Next()
		switch variant {
		case "staking-records-put-eur-out-of-band":
			s.SPR = sprSet(era, h, rt.With("EUR", rt[kit.AssetIndex("EUR")]*5/2), AddrA[:], KA, 25)
		case "staking-records-put-usd-out-of-band":
			s.SPR = sprSet(era, h, rt.With("USD", rt[kit.AssetIndex("USD")]*5/2), AddrA[:], KA, 25)
		}
		return s
	}
	w, err := NewWorld(era, func(b *drive.Builder) {
		if stakers {
			FundStd(b)
		}
		// up to height 430
		for b.Next() < 431 {
			b.AddEmpty(1)
		}
		g := drive.BlockSpec{Rates: R1(), OPRPayTo: kit.AddrStr(KM)}
		if ratesAt == "prev-only" || ratesAt == "both" {
			b.Add(g) // 431
		} else {
			b.AddEmpty(1)
		}
		if ratesAt == "at" || ratesAt == "both" {
			b.Add(at(b, R1())) // 432
		} else {
			b.AddEmpty(1)
		}
		b.AddEmpty(1)
		// second snapshot at 576 so that the MIN join has two snapshots
		for b.Next() < 576 {
			b.AddEmpty(1)
		}
		if ratesAt == "at" || ratesAt == "both" {
			b.Add(at(b, R2()))
		} else {
			b.AddEmpty(1)
		}
		b.AddEmpty(1)
	})
	if err != nil {
		if we, ok := err.(*WorldError); ok {
			return we.Out
		}
		panic("harness: " + err.Error())
	}
	w.Close()
	return drive.Outcome{Reached: true}
}

func entrySize(e fake.Entry) int {
	n := len(e.Content)
	for _, x := range e.ExtIDs {
		n += 2 + len(x)
	}
	return n
}

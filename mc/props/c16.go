package props

import (
	"bytes"
	"encoding/hex"
	"encoding/json"
	"fmt"
	"math/big"
	"strings"

	"pegverif/core"
	"pegverif/drive"
	"pegverif/fake"
	"pegverif/kit"
)

// C16 PEG conversion bank (legacy era).
func init() {
	core.Register(&core.Prop{
		ID: "C16", Level: "exploration",
		Rule: "every multiset of 0..3 (thorough 4) PEG requests with sizes from {1 unit, bank/3, bank/2, bank-1, bank, bank+1, 3*bank} (in PEG at the executing block's rates), sources pUSD and pFCT, placed as separate entries in one block / all in one batch / spread over a following ungraded block, in the bank-per-height era, the pooled-bank era and across the fork between them; the real pipeline executes them; oracle from the property: PEG created per executing block (pooled) or per held height (before the fork) <= bank; every request gets its full amount when the total fits, otherwise at least its floored proportional share and at most that plus the undistributed dust; refund >= 0 in the source asset, equal to the reference refund within the rounding of two integer divisions, and yield*pegRate + refund*srcRate <= input*srcRate; balances move by exactly (-input + refund, +yield); the bank table row of a pooled block is (bank, PEG used, PEG requested). Non-trivial = distinct (era, placement, multiset)",
		Assumptions: []string{"recorded rates of the executing block (C12)", "requests by one funded address; a request the address cannot afford when it executes is rejected whole", "who receives the rounding dust of an oversubscribed bank is taken from the pinned tree's documented rule (the largest request; among equal largest requests the lowest entry hash, then the lowest transaction index): stricter than the property's wording, because a different recipient is a different ledger"},
		Run:         runC16,
	})
}

const bankPEG = uint64(5000 * 1e8)

type c16Req struct {
	src  string
	size string // label
	peg  uint64 // requested PEG (approximate target)
}

func c16Sizes() []struct {
	name string
	peg  uint64
} {
	return []struct {
		name string
		peg  uint64
	}{{"1", 1}, {"b/3", bankPEG / 3}, {"b/2", bankPEG / 2}, {"b-1", bankPEG - 1}, {"b", bankPEG}, {"b+1", bankPEG + 1}, {"3b", 3 * bankPEG},
		// a request of a few units next to a whale of 12 banks: its proportional share floors to 0 while its refund (several units) does not
		{"10u", 10}, {"12b", 12 * bankPEG},
		// half a PEG: request x bank lies just above 2^64 (the products of the other sizes are far below or far above)
		{"0.5", 5e7}}
}

// c16Exec is the height at which every scenario's requests execute (funding 289..292, then either a graded filler
// block 293 and the requests in 294, or the requests spread over 293 and the ungraded 294).
const c16Exec = 295

func c16Era(kind string) drive.Era {
	switch kind {
	case "perheight":
		e := drive.EraStage(drive.StBank)
		e.Name = "bank-per-height"
		return e
	case "pooled":
		e := drive.EraStage(drive.StV4)
		e.Name = "bank-pooled"
		return e
	}
	if kind == "limit-at-exec" {
		// the limit itself activates at the executing block (295): requests held from before are the first to be limited
		e := drive.EraStage(drive.StOneWayFCT)
		e.Name = "bank-limit-activates-at-exec"
		e.ConvLimit, e.FreeFloat = c16Exec, c16Exec
		return e
	}
	// straddle: the fork arrives at the executing block (height 295) or one block later
	e := drive.EraStage(drive.StBank)
	e.Name = "bank-" + kind
	if kind == "fork-at-exec" {
		e.V4, e.RCDe = c16Exec, c16Exec
	} else {
		e.V4, e.RCDe = c16Exec+1, c16Exec+1
	}
	return e
}

func runC16(c *core.Ctx, r *core.Result) {
	maxN := 3
	if c.Thorough() {
		maxN = 4
	}
	sizes := c16Sizes()
	// multisets of size 0..maxN over (size index, source)
	type item struct {
		si  int
		src string
	}
	var items []item
	for si := range sizes {
		items = append(items, item{si, "pUSD"})
	}
	for _, si := range []int{1, 4, 6} {
		items = append(items, item{si, "pFCT"})
	}
	// a request the address cannot afford (it holds no pXBT): rejected whole, takes no part in the bank
	items = append(items, item{2, "pXBT"})
	var multisets [][]item
	var rec func(start int, cur []item)
	rec = func(start int, cur []item) {
		multisets = append(multisets, append([]item{}, cur...))
		if len(cur) == maxN {
			return
		}
		for i := start; i < len(items); i++ {
			rec(i, append(cur, items[i]))
		}
	}
	rec(0, nil)
	// "twobatches": [q0,q1] in one entry and q2 in another, for multisets with q1 == q2: an exact tie between a request at
	// transaction index 1 of one entry and a request at index 0 of another (either entry hash may be the lower one)
	placements := []string{"separate", "onebatch", "spread", "twobatches"}
	idx := 0
	for _, ek := range []string{"perheight", "pooled", "fork-at-exec", "fork-after-exec", "limit-at-exec"} {
		era := c16Era(ek)
		var w *World
		for _, pl := range placements {
			for _, ms := range multisets {
				if (ek == "fork-at-exec" || ek == "fork-after-exec" || ek == "limit-at-exec") && !c.Thorough() && len(ms) > 2 {
					continue
				}
				if pl == "onebatch" && len(ms) < 2 {
					continue
				}
				if pl == "spread" && len(ms) < 2 {
					continue
				}
				if pl == "twobatches" && !(len(ms) == 3 && ms[1] == ms[2]) {
					continue
				}
				idx++
				if !c.Mine(idx) && c.Only == "" {
					continue
				}
				var names []string
				for _, it := range ms {
					names = append(names, it.src+":"+sizes[it.si].name)
				}
				key := fmt.Sprintf("%s/%s/[%s]", era.Name, pl, strings.Join(names, ","))
				if !c.Want(key) {
					continue
				}
				if c.Expired() {
					r.Capped("deadline before " + key)
					if w != nil {
						w.Close()
					}
					return
				}
				if w == nil {
					w = MustWorld(era, func(b *drive.Builder) {
						// large funds: 200,000 FCT burnt, part converted to pUSD
						b.Add(drive.BlockSpec{Rates: R1(), OPRPayTo: kit.AddrStr(KM), Factoid: []fake.FTx{kit.Burn(KA, 200000e8, BurnRCD(), 5)}})
						b.Add(drive.BlockSpec{Rates: R1(), OPRPayTo: kit.AddrStr(KM), TX: []fake.Entry{b.Tx(KA, kit.Conversion(AddrA, "pFCT", 50000e8, "pUSD"))}})
						b.Add(drive.BlockSpec{Rates: R1(), OPRPayTo: kit.AddrStr(KM)})
						b.Add(drive.BlockSpec{Rates: R1(), OPRPayTo: kit.AddrStr(KM)})
					})
				}
				var reqs []c16Req
				for _, it := range ms {
					reqs = append(reqs, c16Req{it.src, sizes[it.si].name, sizes[it.si].peg})
				}
				c16One(c, r, w, era, pl, reqs, key)
			}
		}
		if w != nil {
			w.Close()
		}
	}
}

func c16One(c *core.Ctx, r *core.Result, w *World, era drive.Era, placement string, reqs []c16Req, key string) {
	r.Eval()
	r.NonTrivial(key)
	run := w.Fork()
	defer run.Close()
	b := run.B
	execRates := R2() // rates of the executing block: PEG 0.5, FCT 4
	pegRate := execRates[0]
	// input amount that requests ~peg PEG at the executing rates: ceil(peg*pegRate/srcRate)
	input := func(q c16Req) uint64 {
		sr := execRates[kit.AssetIndex(q.src)]
		n := new(big.Int).Mul(new(big.Int).SetUint64(q.peg), new(big.Int).SetUint64(pegRate))
		n.Add(n, new(big.Int).SetUint64(sr-1))
		n.Quo(n, new(big.Int).SetUint64(sr))
		return n.Uint64()
	}
	type placed struct {
		entry  fake.Entry
		txIdx  int
		in     uint64
		src    string
		height uint32
	}
	var ps []placed
	if placement != "spread" {
		b.Add(drive.BlockSpec{Rates: R1(), OPRPayTo: kit.AddrStr(KM)}) // filler: every placement executes at c16Exec
	}
	h1 := b.Next()
	var blk1, blk2 []fake.Entry
	switch placement {
	case "twobatches":
		e1 := b.Tx(KA, kit.Conversion(AddrA, reqs[0].src, input(reqs[0]), "PEG"), kit.Conversion(AddrA, reqs[1].src, input(reqs[1]), "PEG"))
		e2 := b.Tx(KA, kit.Conversion(AddrA, reqs[2].src, input(reqs[2]), "PEG"))
		blk1 = append(blk1, e1, e2)
		ps = append(ps, placed{e1, 0, input(reqs[0]), reqs[0].src, h1}, placed{e1, 1, input(reqs[1]), reqs[1].src, h1}, placed{e2, 0, input(reqs[2]), reqs[2].src, h1})
	case "onebatch":
		var txs []kit.Tx
		for _, q := range reqs {
			txs = append(txs, kit.Conversion(AddrA, q.src, input(q), "PEG"))
		}
		e := b.Tx(KA, txs...)
		blk1 = append(blk1, e)
		for i, q := range reqs {
			ps = append(ps, placed{e, i, input(q), q.src, h1})
		}
	default:
		for i, q := range reqs {
			in := input(q) + uint64(i) // distinct entries
			if placement == "spread" && i%2 == 1 {
				continue
			}
			e := b.Tx(KA, kit.Conversion(AddrA, q.src, in, "PEG"))
			blk1 = append(blk1, e)
			ps = append(ps, placed{e, 0, in, q.src, h1})
		}
	}
	// block 1 is graded (rates R1) so that the held window of the executing block starts here
	b.Add(drive.BlockSpec{Rates: R1(), OPRPayTo: kit.AddrStr(KM), TX: blk1})
	if placement == "spread" {
		h2 := b.Next()
		for i, q := range reqs {
			if i%2 == 1 {
				in := input(q) + uint64(i)
				e := b.Tx(KA, kit.Conversion(AddrA, q.src, in, "PEG"))
				blk2 = append(blk2, e)
				ps = append(ps, placed{e, 0, in, q.src, h2})
			}
		}
		b.Add(drive.BlockSpec{TX: blk2}) // ungraded
	}
	hExec := b.Next()
	if hExec != c16Exec {
		panic(fmt.Sprintf("harness: C16 scenario executes at %d, eras are aligned on %d", hExec, c16Exec))
	}
	b.Add(drive.BlockSpec{Rates: execRates, OPRPayTo: kit.AddrStr(KM)})
	b.Add(drive.BlockSpec{Rates: R1(), OPRPayTo: kit.AddrStr(KM)})
	pre, err := ReadLedger(drive.DBFileOf(w.DBPath))
	if err != nil {
		panic(err)
	}
	out := run.Sync()
	if !out.Reached {
		r.Count("inconclusive-"+outcomeClass(out), 1)
		return
	}
	// the user's view of the bank ledger: get-bank must report the table row of the executing height
	var apiBank *[4]int64
	apiBankErr := ""
	if hExec >= era.V4 {
		raw, aerr := newAPI(run.D).call("get-bank", map[string]interface{}{"height": hExec})
		if aerr != nil {
			apiBankErr = aerr.Error()
		} else {
			var be struct {
				Height       int64
				BankAmount   int64
				BankUsed     int64
				PEGRequested int64
			}
			if json.Unmarshal(raw, &be) == nil {
				apiBank = &[4]int64{be.Height, be.BankAmount, be.BankUsed, be.PEGRequested}
			}
		}
	}
	run.D.Close()
	run.D = nil
	v, err := ReadLedger(drive.DBFileOf(run.DBPath))
	if err != nil {
		panic(err)
	}
	if hExec >= era.V4 {
		row, ok := v.Bank[hExec]
		if ok && (apiBank == nil || apiBank[0] != int64(hExec) || apiBank[1] != row[0] || apiBank[2] != row[1] || apiBank[3] != row[2]) {
			r.Violate(core.Violation{Key: key, Signature: "C16:get-bank-differs-from-bank-row:" + era.Name, Desc: fmt.Sprintf("get-bank(height %d) = %v (error %q), pn_bank row = %v", hExec, apiBank, apiBankErr, row)})
		}
	}
	spot := v.Rates[hExec]
	pooled := hExec >= era.V4
	// observed per request
	type obs struct {
		status int64
		yield  int64
		refund int64
	}
	var os []obs
	for _, p := range ps {
		eh := fake.EntryHash(drive.IDs.TX, p.entry)
		ehx := hex.EncodeToString(eh[:])
		o := obs{}
		if rows := v.Batches[ehx]; len(rows) == 1 {
			o.status = rows[0].Executed
		}
		for _, t := range v.Txs[ehx] {
			if t.TxIndex == p.txIdx {
				o.yield = t.ToAmount
				var outs []struct {
					Amount int64 `json:"amount"`
				}
				if t.Outputs != "" {
					json.Unmarshal([]byte(t.Outputs), &outs)
				}
				if len(outs) == 1 {
					o.refund = outs[0].Amount
				}
			}
		}
		os = append(os, o)
	}
	// model: sequential affordability in holding order (height, then block order)
	bal := map[string]int64{"pUSD": int64(pre.Bal(AddrA, "pUSD")), "pFCT": int64(pre.Bal(AddrA, "pFCT"))}
	accepted := make([]bool, len(ps))
	requested := make([]*big.Int, len(ps))
	// a batch is accepted or rejected whole
	type grp struct{ idx []int }
	groups := map[string]*grp{}
	var order []string
	for i, p := range ps {
		eh := fake.EntryHash(drive.IDs.TX, p.entry)
		k := hex.EncodeToString(eh[:])
		if groups[k] == nil {
			groups[k] = &grp{}
			order = append(order, k)
		}
		groups[k].idx = append(groups[k].idx, i)
	}
	for _, k := range order {
		g := groups[k]
		tmp := map[string]int64{"pUSD": bal["pUSD"], "pFCT": bal["pFCT"]}
		ok := true
		for _, i := range g.idx {
			if tmp[ps[i].src] < int64(ps[i].in) {
				ok = false
			}
			tmp[ps[i].src] -= int64(ps[i].in)
		}
		if ok {
			for _, i := range g.idx {
				accepted[i] = true
				bal[ps[i].src] -= int64(ps[i].in)
			}
		}
	}
	for i, p := range ps {
		if accepted[i] {
			x, _ := RefConvert(int64(p.in), spot[p.src], spot["PEG"])
			requested[i] = big.NewInt(x)
		}
	}
	// sets that share one bank
	sets := map[uint32][]int{}
	for i, p := range ps {
		if !accepted[i] {
			continue
		}
		k := uint32(0)
		if !pooled {
			k = p.height
		}
		sets[k] = append(sets[k], i)
	}
	viol := func(sig, desc string, detail ...string) {
		r.Violate(core.Violation{Key: key, Signature: "C16:" + sig + ":" + era.Name, Desc: desc, Detail: detail})
	}
	var totalYield, totalReq int64
	for _, set := range sets {
		total := new(big.Int)
		for _, i := range set {
			total.Add(total, requested[i])
		}
		bank := new(big.Int).SetUint64(bankPEG)
		var sumYield int64
		var floors []int64
		var sumFloor int64
		for _, i := range set {
			share := requested[i].Int64()
			if total.Cmp(bank) > 0 {
				share = new(big.Int).Quo(new(big.Int).Mul(requested[i], bank), total).Int64()
			}
			floors = append(floors, share)
			sumFloor += share
		}
		dust := int64(0)
		if total.Cmp(bank) > 0 {
			dust = int64(bankPEG) - sumFloor
		}
		// who gets the dust: the pinned tree gives it to the largest request; among equal largest requests to the one with the
		// lowest entry hash, then the lowest transaction index (its documented tie-break, ConversionSupplySet.Payouts)
		winner := -1
		for _, i := range set {
			if winner < 0 || requested[i].Cmp(requested[winner]) > 0 {
				winner = i
				continue
			}
			if requested[i].Cmp(requested[winner]) == 0 {
				hi, hw := fake.EntryHash(drive.IDs.TX, ps[i].entry), fake.EntryHash(drive.IDs.TX, ps[winner].entry)
				if c := bytes.Compare(hi[:], hw[:]); c < 0 || (c == 0 && ps[i].txIdx < ps[winner].txIdx) {
					winner = i
				}
			}
		}
		for j, i := range set {
			y := os[i].yield
			sumYield += y
			if dust > 0 && y >= floors[j] && y <= floors[j]+dust {
				want := floors[j]
				if i == winner {
					want += dust
				}
				if y != want {
					viol("dust-not-with-the-first-largest-request", fmt.Sprintf("request %d (transaction %d of its entry): yield %d, floored share %d; the dust of %d belongs to request %d", i, ps[i].txIdx, y, floors[j], dust, winner))
				}
			}
			if y < floors[j] || y > floors[j]+dust {
				viol("yield-not-proportional", fmt.Sprintf("request %d (%d %s): yield %d, floored share %d, dust %d (requested %s of total %s, bank %d)", i, ps[i].in, ps[i].src, y, floors[j], dust, requested[i], total, bankPEG))
			}
			// refund
			ref := int64(0)
			if requested[i].Int64() > y {
				ref, _ = RefConvert(requested[i].Int64()-y, spot["PEG"], spot[ps[i].src])
			}
			if os[i].refund < 0 || os[i].refund > ref || os[i].refund < ref-2 {
				viol("refund-differs", fmt.Sprintf("request %d (%d %s): refund %d, reference %d", i, ps[i].in, ps[i].src, os[i].refund, ref))
			}
			lhs := new(big.Int).Mul(big.NewInt(y), new(big.Int).SetUint64(spot["PEG"]))
			lhs.Add(lhs, new(big.Int).Mul(big.NewInt(os[i].refund), new(big.Int).SetUint64(spot[ps[i].src])))
			rhs := new(big.Int).Mul(big.NewInt(int64(ps[i].in)), new(big.Int).SetUint64(spot[ps[i].src]))
			if lhs.Cmp(rhs) > 0 {
				viol("yield-plus-refund-exceeds-input-value", fmt.Sprintf("request %d: yield %d + refund %d worth more than input %d %s", i, y, os[i].refund, ps[i].in, ps[i].src))
			}
		}
		if sumYield > int64(bankPEG) {
			viol("bank-exceeded", fmt.Sprintf("PEG created %d exceeds the bank %d", sumYield, bankPEG))
		}
		if total.Cmp(bank) > 0 && sumYield != int64(bankPEG) && len(set) > 0 {
			r.Count("note-oversubscribed-bank-not-fully-used", 1)
		}
		totalYield += sumYield
		if total.IsInt64() {
			totalReq += total.Int64()
		}
	}
	// rejected requests: no yield, status negative
	for i := range ps {
		if !accepted[i] && (os[i].yield != 0 || os[i].status > 0) {
			viol("unaffordable-request-executed", fmt.Sprintf("request %d (%d %s) cannot be afforded but status=%d yield=%d", i, ps[i].in, ps[i].src, os[i].status, os[i].yield))
		}
		if accepted[i] && os[i].status != int64(hExec) {
			viol("request-not-executed-at-first-graded-block", fmt.Sprintf("request %d status=%d, expected executed at %d", i, os[i].status, hExec))
		}
	}
	// balances
	wantPEG := int64(pre.Bal(AddrA, "PEG")) + totalYield
	if int64(v.Bal(AddrA, "PEG")) != wantPEG {
		viol("peg-balance-differs", fmt.Sprintf("PEG balance %d, expected %d (sum of yields %d)", v.Bal(AddrA, "PEG"), wantPEG, totalYield))
	}
	for _, src := range []string{"pUSD", "pFCT"} {
		want := int64(pre.Bal(AddrA, src))
		for i, p := range ps {
			if p.src == src && accepted[i] {
				want += -int64(p.in) + os[i].refund
			}
		}
		if int64(v.Bal(AddrA, src)) != want {
			viol("source-balance-differs", fmt.Sprintf("%s balance %d, expected %d", src, v.Bal(AddrA, src), want))
		}
	}
	// bank table
	if pooled {
		row, ok := v.Bank[hExec]
		if !ok {
			viol("bank-row-missing", fmt.Sprintf("no pn_bank row for the executing height %d", hExec))
		} else if row[0] != int64(bankPEG) || row[1] != totalYield || row[2] != totalReq {
			viol("bank-row-differs", fmt.Sprintf("pn_bank(%d) = (amount %d, used %d, requested %d), expected (%d, %d, %d)", hExec, row[0], row[1], row[2], bankPEG, totalYield, totalReq))
		}
	}
	r.Outcome(fmt.Sprintf("requests=%d accepted=%d oversubscribed=%v", len(ps), countTrue(accepted), totalReq > int64(bankPEG)))
	if len(r.Samples) < 4 && len(ps) > 1 {
		r.Sample(map[string]interface{}{"scenario": key, "yields": fmt.Sprint(os), "executing_height": hExec})
	}
}

func countTrue(b []bool) int {
	n := 0
	for _, x := range b {
		if x {
			n++
		}
	}
	return n
}

//go:build !c01

package props

import "pegverif/core"

// C01 needs the binary built with the rangeperm overlay (check.sh C01 ...); in
// the ordinary binary it is registered only so that `pvmc list` shows it.
func init() {
	core.Register(&core.Prop{ID: "C01", Level: "model_checking", Rule: "built only by `check.sh C01`", Run: func(c *core.Ctx, r *core.Result) {
		panic("C01 must be run through check.sh (binary with the range-permutation overlay)")
	}})
}

package props

import (
	"database/sql"
	"encoding/hex"
	"fmt"
	"sort"
	"strings"

	"github.com/Factom-Asset-Tokens/factom"
	"github.com/pegnet/pegnetd/node"

	"pegverif/core"
	"pegverif/drive"
	"pegverif/fake"
	"pegverif/kit"
	"pegverif/sqlw"
)

// C15 Scheduled issuance: developer rewards and one-time ledger adjustments.
func init() {
	core.Register(&core.Prop{
		ID: "C15", Level: "exploration",
		Rule: "chains of 450-900 blocks in the 2.x eras with the developer-reward activation at every offset 0..143 from the 144-block cadence (2.0.2 following 150 blocks later, so both the 2,000 PEG and the 2,000 PEG x 144 regimes are crossed); the first burn-address zeroing at offsets 0..61 after a paying snapshot with {0,1,5,10} stakers and prior burn-address holdings {none, 2 assets, 60 assets}; the 2.0.2 zeroing, the 2.0.4 mint and the mint burn with prior holdings {none, some} of the special addresses and transfers to them before and after; after EVERY committed block the balances of the 14 developer addresses, both burn addresses and the mint address are read and their per-block deltas compared with the schedule: developer address i gains pct_i% of 2,000 PEG (x144 from 2.0.2) at every multiple of 144 from the activation and nothing else; each one-time adjustment happens at exactly its activation height, for exactly the balance held / the 31 listed amounts, and at no other height. Non-trivial = distinct (family, alignment, holdings)",
		Assumptions: []string{"explicit transfers to the special addresses made by the scenario itself are added to the schedule", "alignment 0 of the first zeroing (activation on a paying snapshot height) cannot be synced at all (C08) and is counted as inconclusive"},
		Run:         runC15,
	})
}

type c15Track struct {
	perHeight map[uint32]map[string]map[string]uint64 // height -> addr hex -> asset -> balance
}

func c15Read(dbfile string, addrs []factom.FAAddress) map[string]map[string]uint64 {
	out := map[string]map[string]uint64{}
	db, err := sql.Open("sqlite3", "file:"+dbfile+"?mode=ro&_busy_timeout=10000")
	if err != nil {
		return out
	}
	defer db.Close()
	tick := tickerCols()
	cols := make([]string, len(tick))
	for i, t := range tick {
		cols[i] = strings.ToLower(t) + "_balance"
	}
	for _, a := range addrs {
		vals := make([]uint64, len(tick))
		ptrs := make([]interface{}, len(tick))
		for i := range vals {
			ptrs[i] = &vals[i]
		}
		m := map[string]uint64{}
		if err := db.QueryRow("SELECT "+strings.Join(cols, ",")+" FROM pn_addresses WHERE address = ?", a[:]).Scan(ptrs...); err == nil {
			for i, t := range tick {
				if vals[i] != 0 {
					m[t] = vals[i]
				}
			}
		}
		out[hex.EncodeToString(a[:])] = m
	}
	return out
}

type c15Scenario struct {
	name    string
	class   string
	era     drive.Era
	tip     uint32
	stakers int
	// transfers by A to special addresses: height -> txs
	burnOld  string // none | some | many
	burnNew  string
	mintPrev string
	// the mint address is one whose key the harness holds, and it spends in the mint and mint-burn blocks
	mintKey bool
	// the directory-block request of the mint block and of the mint-burn block fails once: both blocks are applied twice
	retryMint bool
}

func c15Scenarios(thorough bool) []c15Scenario {
	var out []c15Scenario
	base := func() drive.Era {
		e := drive.EraStage(drive.StV20)
		e.DevRewards, e.SprSig, e.V202, e.OneWaySmall, e.V204, e.V204Burn, e.PIP10 = drive.Never, drive.Never, drive.Never, drive.Never, drive.Never, drive.Never, drive.Never
		return e
	}
	// family dev: alignment of the developer-reward activation
	for off := uint32(0); off < 144; off++ {
		if !thorough && off%3 != 0 && off > 4 && off < 140 {
			continue
		}
		e := base()
		e.Name = fmt.Sprintf("dev-act-432+%d", off)
		e.DevRewards = 432 + off
		e.SprSig = e.DevRewards
		e.V202 = e.DevRewards + 150
		e.OneWaySmall = e.V202
		tip := (e.V202/144 + 2) * 144 + 1
		out = append(out, c15Scenario{name: fmt.Sprintf("dev/offset%d", off), class: "dev", era: e, tip: tip})
	}
	// family zero1: first zeroing after a paying snapshot (576)
	for off := uint32(0); off <= 61; off++ {
		for _, st := range []int{0, 1, 5, 10} {
			if !thorough && !(off <= 12 || off%10 == 0 || off == 54 || off == 61) {
				continue
			}
			for _, hold := range []string{"none", "some", "many"} {
				if hold == "many" {
					continue
				}
				if hold == "none" && st != 5 {
					continue
				}
				e := base()
				e.Name = fmt.Sprintf("zero1-act-576+%d", off)
				e.DevRewards = 576 + off
				e.SprSig = e.DevRewards
				out = append(out, c15Scenario{name: fmt.Sprintf("zero1/offset%d/stakers%d/burn-%s", off, st, hold), class: fmt.Sprintf("zero1-stakers%d", st), era: e, tip: 576 + off + 3, stakers: st, burnOld: hold})
			}
		}
	}
	// family late: 2.0.2 zeroing, mint, mint burn
	for _, hold := range []string{"none", "some"} {
		for _, off := range []uint32{0, 1, 77, 143} {
			e := base()
			e.Name = "late"
			e.DevRewards, e.SprSig = 300, 300
			e.V202 = 432 + off
			e.OneWaySmall = e.V202
			e.V204 = e.V202 + 20
			e.V204Burn = e.V204 + 20
			e.PIP10 = e.V204Burn + 10
			out = append(out, c15Scenario{name: fmt.Sprintf("late/v202-at-432+%d/holdings-%s", off, hold), class: "late", era: e, tip: e.PIP10 + 5, burnNew: hold, mintPrev: hold, burnOld: "some"})
			if off == 1 || off == 77 {
				out = append(out, c15Scenario{name: fmt.Sprintf("late/v202-at-432+%d/holdings-%s/mint-blocks-retried", off, hold), class: "late-retried", era: e, tip: e.PIP10 + 5, burnNew: hold, mintPrev: hold, burnOld: "some", retryMint: true})
			}
			if off == 0 || off == 77 {
				out = append(out, c15Scenario{name: fmt.Sprintf("late/v202-at-432+%d/holdings-%s/mint-address-spends", off, hold), class: "late-mintspends", era: e, tip: e.PIP10 + 5, burnNew: hold, mintPrev: hold, burnOld: "some", mintKey: true})
			}
		}
	}
	return out
}

func runC15(c *core.Ctx, r *core.Result) {
	if c.Shard == 0 && c.Only == "" {
		r.Eval()
		if diffs := c15Frozen(false); len(diffs) > 0 {
			r.Violate(core.Violation{Key: "fixed-lists", Signature: "C15:fixed-list-differs", Desc: "the developer list / mint table / special addresses of the code differ from the fixed lists the property refers to", Detail: diffs})
		}
	}
	for i, sc := range c15Scenarios(c.Thorough()) {
		if !c.Mine(i) && c.Only == "" {
			continue
		}
		if !c.Want(sc.name) {
			continue
		}
		if c.Expired() {
			r.Capped("deadline before " + sc.name)
			return
		}
		c15One(c, r, sc)
	}
}

const c15MintKey = 901

func c15One(c *core.Ctx, r *core.Result, sc c15Scenario) {
	r.Eval()
	r.NonTrivial(sc.name)
	era := sc.era
	era.Apply()
	b := drive.NewBuilder(era)
	A := AddrA
	oldBurn, newBurn := OldBurn(), GlobalBurn()
	if sc.mintKey {
		// somebody holds the mint address' key (its holders distribute the 2.0.4 supply): use one the harness can sign with
		defer func(old string) { node.GlobalMintAddress = old }(node.GlobalMintAddress)
		node.GlobalMintAddress = kit.AddrStr(c15MintKey)
	}
	mint, _ := factom.NewFAAddress(node.GlobalMintAddress)
	g := func(s drive.BlockSpec) drive.BlockSpec {
		if s.Rates == nil {
			s.Rates = R1()
		}
		if s.OPRPayTo == "" {
			s.OPRPayTo = kit.AddrStr(KM)
		}
		return s
	}
	// scheduled explicit credits made by the scenario: height -> addr hex -> asset -> amount
	explicit := map[uint32]map[string]map[string]int64{}
	note := func(h uint32, a factom.FAAddress, asset string, amt uint64) {
		k := hex.EncodeToString(a[:])
		if explicit[h] == nil {
			explicit[h] = map[string]map[string]int64{}
		}
		if explicit[h][k] == nil {
			explicit[h][k] = map[string]int64{}
		}
		explicit[h][k][asset] += int64(amt)
	}
	FundStd(b) // 289..292
	// 293: A converts PEG into many assets (for "many" holdings) and more pUSD/pEUR
	var convs []kit.Tx
	convs = append(convs, kit.Conversion(A, "PEG", 10000e8, "pUSD"), kit.Conversion(A, "PEG", 3000e8, "pEUR"))
	b.Add(g(drive.BlockSpec{TX: []fake.Entry{b.Tx(KA, convs...)}}))
	if sc.burnOld != "none" {
		// the only way the old burn address (all-zero RCD hash, nobody has its key) can hold anything: mining rewards paid to it
		note(b.Next(), oldBurn, "PEG", 25*360e8)
		b.Add(g(drive.BlockSpec{OPRPayTo: oldBurn.String()}))
	} else {
		b.Add(g(drive.BlockSpec{}))
	}
	// 295: stakers get pUSD; transfers to the special addresses
	var txs []kit.Tx
	for i := 0; i < sc.stakers; i++ {
		txs = append(txs, kit.Transfer(A, "pUSD", uint64(10+i)*1e8, kit.Addr(800+i)))
	}
	h295 := b.Next()
	credit := func(h uint32, to factom.FAAddress, asset string, amt uint64, txl *[]kit.Tx) {
		*txl = append(*txl, kit.Transfer(A, asset, amt, to))
		// outputs to the 2.0.2 burn address are destroyed from 2.0.2 on; before 2.0.2 the comparison address
		// is the zero value, which happens to BE the old burn address (all-zero RCD hash): also destroyed
		destroyed := (to == newBurn && h >= era.V202) || (to == oldBurn && h < era.V202)
		if !destroyed {
			note(h, to, asset, amt)
		}
	}
	switch sc.burnOld {
	case "some", "many":
		// transfers to the old burn address are destroyed, not credited (checked by the schedule: delta 0)
		credit(h295, oldBurn, "pUSD", 7e8, &txs)
		credit(h295, oldBurn, "pEUR", 3e8, &txs)
	}
	if sc.burnNew == "some" {
		credit(h295, newBurn, "pUSD", 9e8, &txs)
		credit(h295, newBurn, "PEG", 2e8, &txs)
	}
	if sc.mintPrev == "some" {
		credit(h295, mint, "PEG", 5e8, &txs)
		credit(h295, mint, "pUSD", 4e8, &txs)
		credit(h295, mint, "pEUR", 1e8, &txs) // pEUR is not in the mint list: must survive the mint burn
	}
	if len(txs) > 0 {
		b.Add(g(drive.BlockSpec{TX: []fake.Entry{b.Tx(KA, txs...)}}))
	}
	// later transfers to the burn addresses after their zeroing, and to the mint address between mint and burn
	for b.Next() <= sc.tip {
		h := b.Next()
		var t []kit.Tx
		if sc.class == "late" {
			if h == era.V202+3 {
				credit(h, newBurn, "pUSD", 1e8, &t) // destroyed, not credited
				credit(h, oldBurn, "pUSD", 1e8, &t)
			}
			if h == era.V204+5 {
				credit(h, mint, "PEG", 3e8, &t)
			}
			if h == era.V204Burn+3 {
				credit(h, mint, "PEG", 2e8, &t) // after the one-time burn: must stay
				credit(h, mint, "pUSD", 1e8, &t)
			}
			if h == era.V204-3 {
				credit(h, mint, "pUSD", 6e8, &t) // before the mint
			}
		}
		var mintTx *fake.Entry
		if sc.mintKey && (h == era.V204 || h == era.V204Burn || h == era.V204+7) {
			// at the mint height the supply is spendable or not (either order within the block keeps the supply exact: checked
			// below as mint + recipient); between the two heights it is; at the burn height what is held is burned, all of it
			e := b.Tx(c15MintKey, kit.Transfer(mint, "pUSD", 11e8, AddrC))
			mintTx = &e
		}
		graded := h%144 == 0 || h%144 == 143 || len(t) > 0 || mintTx != nil || h == era.DevRewards || h == era.V202 || h == era.V204 || h == era.V204Burn
		switch {
		case mintTx != nil && len(t) > 0:
			b.Add(g(drive.BlockSpec{TX: []fake.Entry{b.Tx(KA, t...), *mintTx}}))
		case mintTx != nil:
			b.Add(g(drive.BlockSpec{TX: []fake.Entry{*mintTx}}))
		case len(t) > 0:
			b.Add(g(drive.BlockSpec{TX: []fake.Entry{b.Tx(KA, t...)}}))
		case graded:
			b.Add(g(drive.BlockSpec{}))
		default:
			b.AddEmpty(1)
		}
	}
	// ---- run with a per-block tracker of the special addresses
	var special []factom.FAAddress
	devIdx := map[string]int{}
	for i, dv := range c15DevList {
		a, _ := factom.NewFAAddress(dv.addr)
		special = append(special, a)
		devIdx[hex.EncodeToString(a[:])] = i
	}
	special = append(special, oldBurn, newBurn, mint)
	kC := hex.EncodeToString(AddrC[:])
	if sc.mintKey {
		special = append(special, AddrC)
	}
	dir := drive.Scratch("c15")
	run := &Run{B: b, Dir: dir, DBPath: dir + "/db"}
	defer run.Close()
	d := run.Open(nil)
	per := map[uint32]map[string]map[string]uint64{}
	per[era.Base] = c15Read(d.DBFile(), special)
	d.DB.SetHooks(&sqlw.Hooks{After: func(op *sqlw.Op, err error) {
		if op.Kind == "commit" && err == nil {
			per[SyncedOf(d.DBFile())] = c15Read(d.DBFile(), special)
		}
	}})
	var out drive.Outcome
	if sc.retryMint {
		failed := map[uint32]bool{}
		out = run.D.SyncTo(b.Chain.Tip(), drive.SyncOpts{OnRequest: func(rq fake.Req) fake.FaultKind {
			if rq.Kind == "dblock" && (rq.Height == era.V204 || rq.Height == era.V204Burn) && !failed[rq.Height] {
				failed[rq.Height] = true
				return fake.FaultTransport
			}
			return fake.NoFault
		}, FaultPending: func() bool { return len(failed) < 2 }})
		if out.Reached && len(failed) != 2 {
			panic("harness: C15 " + sc.name + ": the injected failures did not fire")
		}
	} else {
		out = run.Sync()
	}
	// the fixed lists must still be what they were: a table rewritten in memory changes every later use of it
	if diffs := c15Frozen(sc.mintKey); len(diffs) > 0 {
		r.Violate(core.Violation{Key: sc.name, Signature: "C15:fixed-list-differs-after-a-run", Desc: "after this chain the in-memory developer list / mint table differ from the fixed lists", Detail: diffs})
	}
	if !out.Reached {
		r.Count("inconclusive-"+outcomeClass(out), 1)
		r.Outcome(sc.class + ":not-synced:" + errClass(out.LastErr+out.DiedMsg))
		return
	}
	// ---- schedule
	viol := func(sig, desc string, detail ...string) {
		r.Violate(core.Violation{Key: sc.name, Signature: "C15:" + sig, Desc: desc, Detail: detail})
	}
	mintList := map[string]uint64{}
	for t, amt := range c15MintList {
		mintList[t] = amt * 1e8
	}
	kOld, kNew, kMint := hex.EncodeToString(oldBurn[:]), hex.EncodeToString(newBurn[:]), hex.EncodeToString(mint[:])
	var problems []string
	for h := era.Base + 1; h <= sc.tip; h++ {
		prev, cur := per[h-1], per[h]
		if cur == nil || prev == nil {
			continue
		}
		for a, bal := range cur {
			if a == kC {
				continue // only the recipient of the mint address' own transfers
			}
			assets := map[string]bool{}
			for x := range bal {
				assets[x] = true
			}
			for x := range prev[a] {
				assets[x] = true
			}
			for x := range explicit[h][a] {
				assets[x] = true
			}
			if a == kMint && h == era.V204 {
				for x := range mintList {
					assets[x] = true
				}
			}
			for x := range assets {
				got := int64(bal[x]) - int64(prev[a][x])
				want := explicit[h][a][x]
				if a == kMint && sc.mintKey {
					// what the mint address sent away itself is not issuance: count it back in
					got += int64(cur[kC][x]) - int64(prev[kC][x])
				}
				if di, isDev := devIdx[a]; isDev && x == "PEG" && h >= era.DevRewards && h%144 == 0 {
					pct := c15DevList[di].pct
					unit := int64(2000e8 / 100)
					amt := int64(float64(unit) * pct)
					if h >= era.V202 {
						amt *= 144
					}
					want += amt
				}
				if a == kOld && h == era.DevRewards {
					want -= int64(prev[a][x]) // everything held before the block is destroyed
				}
				if a == kNew && h == era.V202 {
					want -= int64(prev[a][x])
				}
				if a == kMint && h == era.V204 {
					want += int64(mintList[x])
				}
				if a == kMint && h == era.V204Burn {
					if _, listed := mintList[x]; listed {
						want -= int64(prev[a][x])
					}
				}
				if _, isDev := devIdx[a]; !isDev && x == "PEG" && h%144 == 0 && got >= want {
					continue // holder staking payouts (C14) may reach any address holding non-PEG assets
				}
				if got != want {
					who := "dev"
					switch a {
					case kOld:
						who = "old-burn"
					case kNew:
						who = "burn"
					case kMint:
						who = "mint"
					}
					problems = append(problems, fmt.Sprintf("h=%d %s %s: delta %d, scheduled %d", h, who, x, got, want))
				}
			}
		}
	}
	if sc.mintKey {
		h := era.V204 + 7
		if per[h] != nil && per[h-1] != nil && int64(per[h][kC]["pUSD"])-int64(per[h-1][kC]["pUSD"]) != 11e8 {
			panic("harness: C15 " + sc.name + ": the mint address' own transfer between mint and burn did not execute: the scenario is vacuous")
		}
	}
	// developer totals per payout = exactly 2000 PEG (x144)
	for h := era.Base + 1; h <= sc.tip; h++ {
		if h >= era.DevRewards && h%144 == 0 && per[h] != nil && per[h-1] != nil {
			var sum int64
			for a := range devIdx {
				sum += int64(per[h][a]["PEG"]) - int64(per[h-1][a]["PEG"])
			}
			want := int64(2000e8)
			if h >= era.V202 {
				want *= 144
			}
			if sum != want {
				problems = append(problems, fmt.Sprintf("h=%d developer total %d, expected %d", h, sum, want))
			}
		}
	}
	if len(problems) > 0 {
		sort.Strings(problems)
		kind := c15Kind(problems)
		if len(problems) > 8 {
			problems = append(problems[:8], fmt.Sprintf("… %d deviations", len(problems)))
		}
		viol(fmt.Sprintf("schedule-deviation:%s:%s", sc.class, kind), "per-block balance deltas of the special addresses deviate from the issuance schedule", problems...)
	}
	r.Outcome(sc.class + ":synced")
	if len(r.Samples) < 4 {
		r.Sample(map[string]interface{}{"scenario": sc.name, "blocks": sc.tip - era.Base, "dev_activation": era.DevRewards, "v202": era.V202})
	}
	_ = fake.Entry{}
}

// c15Kind names which special address classes deviate.
func c15Kind(problems []string) string {
	set := map[string]bool{}
	for _, p := range problems {
		f := strings.Fields(p)
		if len(f) > 1 {
			set[f[1]] = true
		}
	}
	var ks []string
	for k := range set {
		ks = append(ks, k)
	}
	sort.Strings(ks)
	return strings.Join(ks, "+")
}

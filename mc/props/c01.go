//go:build c01

package props

import (
	"github.com/pegnet/pegnetd/node"
	"github.com/Factom-Asset-Tokens/factom"
	"encoding/json"
	"fmt"
	"os"
	"sort"
	"strings"
	"sync"

	"github.com/pegnet/pegnetd/verifrt"

	"pegverif/canon"
	"pegverif/core"
	"pegverif/drive"
	"pegverif/fake"
	"pegverif/kit"
)

// C01 Deterministic replay: same chain, same ledger.
func init() {
	core.Register(&core.Prop{
		ID: "C01", Level: "model_checking",
		Rule: "every `range` over a Go map in the consensus packages (node, node/pegnet, node/conversions, fat/fat2) of the CURRENT tree is rewritten at build time so that the explorer chooses the iteration order at every dynamic execution; the fake Factom node imposes the completion order of concurrent entry fetches. Scenarios contain exact ties (2-4 stakers with identical stake below / above the cap; equal PEG requests below / above the bank in separate entries and in one batch; 27 OPR and SPR records quoting identical rates; transaction blocks of 3-4 entries). Deviation-bounded depth-first search over the choice vector: at a map with n <= 4 keys all n! orders, at larger maps {sorted, reversed, rotated by one, first two swapped}; fetch orders: all k! for k <= 4. Invariant: ONE distinct canonical ledger dump per scenario (all tables; row ids and wall-clock columns excluded). States = distinct choice vectors executed; transitions = choice points passed",
		Assumptions: []string{"Go's sort is a deterministic function of its input sequence, so enumerating input orders covers sort (in)stability", "the grader libraries are outside the rewritten packages (taken as the definition of grading)", "completion order of fetches is imposed at the transport, not inside the client goroutines"},
		Run:         runC01,
	})
}

type c01Point struct {
	site string
	n    int
	alts int
}

func permsOf(n int) [][]int {
	if n <= 4 {
		var out [][]int
		cur := make([]int, n)
		for i := range cur {
			cur[i] = i
		}
		var rec func(k int)
		rec = func(k int) {
			if k == n {
				out = append(out, append([]int{}, cur...))
				return
			}
			for i := k; i < n; i++ {
				cur[k], cur[i] = cur[i], cur[k]
				rec(k + 1)
				cur[k], cur[i] = cur[i], cur[k]
			}
		}
		rec(0)
		// identity first
		sort.Slice(out, func(i, j int) bool { return fmt.Sprint(out[i]) < fmt.Sprint(out[j]) })
		return out
	}
	id := make([]int, n)
	rev := make([]int, n)
	rot := make([]int, n)
	sw := make([]int, n)
	for i := 0; i < n; i++ {
		id[i], rev[i], rot[i], sw[i] = i, n-1-i, (i+1)%n, i
	}
	sw[0], sw[1] = 1, 0
	return [][]int{id, rev, rot, sw}
}

type c01Scenario struct {
	name   string
	era    drive.Era
	prefix func(b *drive.Builder)
	window func(b *drive.Builder) // blocks during which the order choices are explored
	fetchK int                    // number of transaction entries in the first window block whose fetch order is explored (0 = none)
	// history: the process that replays the window is itself a choice: before every window block the explorer either lets the
	// running node continue or replaces it by a freshly started one ("never on the process that computed it")
	history bool
	// fetchFault: the first request for the first of the concurrently fetched entries fails once (transport error)
	fetchFault bool
	// retry: before every window block the explorer chooses whether one upstream request of that block (the directory block
	// itself, or the request that follows it) fails once, so that the running node applies the block a second time
	retry bool
	// historyLast: with history, offer the restart-or-continue choice only before the last n window blocks (0 = before every block)
	historyLast int
}

func c01Scenarios(thorough bool) []c01Scenario {
	var out []c01Scenario
	A := AddrA
	g := func(s drive.BlockSpec) drive.BlockSpec {
		if s.Rates == nil {
			s.Rates = R1()
		}
		if s.OPRPayTo == "" {
			s.OPRPayTo = kit.AddrStr(KM)
		}
		return s
	}
	// staking ties
	for _, n := range []int{2, 3, 4} {
		if n == 4 && !thorough {
			continue
		}
		for _, variant := range []int{0, 1, 2} {
			n, above, top := n, variant >= 1, variant == 2
			era := drive.EraStage(drive.StV202)
			era.Name = "v202"
			nm := fmt.Sprintf("staking-tie/%d-stakers/%s", n, map[bool]string{false: "below-cap", true: "above-cap"}[above])
			// variant 2: the tied stakers are the TOP stakers (the funder keeps less than each of them), so the
			// tie decides who receives the rounding dust of an oversubscribed payout
			xbtEach, usdEach := uint64(1000000), uint64(50e8)
			if top {
				nm = fmt.Sprintf("staking-tie/%d-top-stakers/above-cap", n)
				xbtEach, usdEach = 8000000/uint64(n), 2100e8/uint64(n)
			}
			out = append(out, c01Scenario{name: nm, era: era,
				prefix: func(b *drive.Builder) {
					FundStd(b)
					b.Add(g(drive.BlockSpec{TX: []fake.Entry{b.Tx(KA, kit.Conversion(A, "PEG", 4000e8, "pXBT"), kit.Conversion(A, "PEG", 10000e8, "pUSD"))}}))
					b.Add(g(drive.BlockSpec{}))
					var txs []kit.Tx
					for i := 0; i < n; i++ {
						txs = append(txs, kit.Transfer(A, "pXBT", xbtEach, kit.Addr(800+i)), kit.Transfer(A, "pUSD", usdEach, kit.Addr(800+i)))
					}
					b.Add(g(drive.BlockSpec{TX: []fake.Entry{b.Tx(KA, txs...)}}))
					for b.Next() < 431 {
						b.AddEmpty(1)
					}
					b.Add(g(drive.BlockSpec{}))
					b.Add(g(drive.BlockSpec{}))
					for b.Next() < 575 {
						b.AddEmpty(1)
					}
					b.Add(g(drive.BlockSpec{}))
				},
				window: func(b *drive.Builder) {
					r := R1()
					if above {
						r = r.With("XBT", 9e7*1e8)
					}
					b.Add(g(drive.BlockSpec{Rates: r})) // 576
					b.Add(g(drive.BlockSpec{}))
				}})
		}
	}
	// equal PEG requests
	for _, form := range []string{"separate", "onebatch"} {
		for _, over := range []bool{false, true} {
			form, over := form, over
			era := drive.EraStage(drive.StV4)
			era.Name = "bank-pooled"
			nm := fmt.Sprintf("equal-peg-requests/%s/%s", form, map[bool]string{false: "below-bank", true: "above-bank"}[over])
			out = append(out, c01Scenario{name: nm, era: era,
				prefix: func(b *drive.Builder) {
					b.Add(g(drive.BlockSpec{Factoid: []fake.FTx{kit.Burn(KA, 200000e8, BurnRCD(), 5)}}))
					b.Add(g(drive.BlockSpec{TX: []fake.Entry{b.Tx(KA, kit.Conversion(A, "pFCT", 50000e8, "pUSD"))}}))
					b.Add(g(drive.BlockSpec{}))
					amt := uint64(300e8)
					if over {
						amt = 900e8 // 3 x 900 pUSD at 0.5 = 5400 PEG > 5000
					}
					var es []fake.Entry
					if form == "onebatch" {
						es = append(es, b.Tx(KA, kit.Conversion(A, "pUSD", amt, "PEG"), kit.Conversion(A, "pUSD", amt, "PEG"), kit.Conversion(A, "pUSD", amt, "PEG")))
					} else {
						es = append(es, b.Tx(KA, kit.Conversion(A, "pUSD", amt, "PEG")), b.Tx(KB, kit.Conversion(AddrB, "pUSD", amt, "PEG")), b.Tx(KC, kit.Conversion(AddrC, "pUSD", amt, "PEG")))
						// B and C need funds
					}
					fund := b.Tx(KA, kit.Transfer(A, "pUSD", amt, AddrB), kit.Transfer(A, "pUSD", amt, AddrC))
					b.Add(g(drive.BlockSpec{TX: []fake.Entry{fund}}))
					b.Add(g(drive.BlockSpec{TX: es}))
				},
				window: func(b *drive.Builder) {
					b.Add(g(drive.BlockSpec{Rates: R2()}))
					b.Add(g(drive.BlockSpec{}))
				}})
		}
	}
	// a whale request of many banks next to two requests of a few units whose proportional share floors to 0 (refund only)
	{
		era := drive.EraStage(drive.StV4)
		era.Name = "bank-pooled"
		out = append(out, c01Scenario{name: "peg-requests/whale+two-zero-yield", era: era,
			prefix: func(b *drive.Builder) {
				b.Add(g(drive.BlockSpec{Factoid: []fake.FTx{kit.Burn(KA, 200000e8, BurnRCD(), 5)}}))
				b.Add(g(drive.BlockSpec{TX: []fake.Entry{b.Tx(KA, kit.Conversion(A, "pFCT", 50000e8, "pUSD"))}}))
				b.Add(g(drive.BlockSpec{}))
				fund := b.Tx(KA, kit.Transfer(A, "pUSD", 1000, AddrB), kit.Transfer(A, "pUSD", 1000, AddrC))
				b.Add(g(drive.BlockSpec{TX: []fake.Entry{fund}}))
				b.Add(g(drive.BlockSpec{TX: []fake.Entry{b.Tx(KA, kit.Conversion(A, "pUSD", 60000e8, "PEG")), b.Tx(KB, kit.Conversion(AddrB, "pUSD", 10, "PEG")), b.Tx(KC, kit.Conversion(AddrC, "pUSD", 20, "PEG"))}}))
			},
			window: func(b *drive.Builder) {
				b.Add(g(drive.BlockSpec{Rates: R2()}))
				b.Add(g(drive.BlockSpec{}))
			}})
	}
	// identical records
	{
		era := drive.EraStage(drive.StPIP10)
		era.Name = "pip10"
		out = append(out, c01Scenario{name: "identical-records/27-opr-27-spr+conversion", era: era,
			prefix: func(b *drive.Builder) {
				FundStd(b)
				b.Add(g(drive.BlockSpec{}))
				b.Add(g(drive.BlockSpec{TX: []fake.Entry{b.Tx(KA, kit.Conversion(A, "pUSD", 5e8, "pEUR"))}}))
			},
			window: func(b *drive.Builder) {
				b.Add(g(drive.BlockSpec{Rates: R2(), NOPR: 27, SPR: sprSet(era, b.Next(), R2(), A[:], KA, 27)}))
				b.Add(g(drive.BlockSpec{}))
			}})
	}
	// the one-time ledger adjustments (burn-address zeroing at the developer-reward and 2.0.2 activations, mint, mint burn):
	// each walks the assets of a special address and records one history row per asset
	{
		era := drive.EraStage(drive.StV20)
		era.Name = "one-time-adjustments"
		era.DevRewards, era.SprSig = era.Base+7, era.Base+7
		era.V202, era.OneWaySmall = era.Base+8, era.Base+8
		era.V204 = era.Base + 9
		era.V204Burn = era.Base + 10
		mint, _ := factom.NewFAAddress(node.GlobalMintAddress)
		out = append(out, c01Scenario{name: "one-time-adjustments/zeroing+mint+mint-burn", era: era, retry: true,
			prefix: func(b *drive.Builder) {
				FundStd(b)
				// both burn addresses and the mint address hold several assets when their adjustment arrives
				b.Add(g(drive.BlockSpec{OPRPayTo: OldBurn().String(), TX: []fake.Entry{b.Tx(KA,
					kit.Transfer(A, "pUSD", 3e8, GlobalBurn()), kit.Transfer(A, "pEUR", 2e8, GlobalBurn()), kit.Transfer(A, "PEG", 5e8, GlobalBurn()),
					kit.Transfer(A, "pUSD", 4e8, mint), kit.Transfer(A, "pEUR", 1e8, mint))}}))
			},
			window: func(b *drive.Builder) {
				for b.Next() <= era.Base+10 {
					b.Add(g(drive.BlockSpec{}))
				}
			}})
	}
	// process history: a block without rates inside a window that is longer than the chain (so the count-versus-height
	// trimming of C09-K1 cannot differ), conversions whose price is bound by the average, restart or not before every block
	{
		era := drive.EraStage(drive.StPIP10)
		era.Name = "pip10-avg16"
		era.AvgPeriod = 16
		out = append(out, c01Scenario{name: "process-history/gap-inside-a-long-averaging-window", era: era, history: true,
			prefix: func(b *drive.Builder) {
				// with a 16-block window an average needs 8 rated heights: mine first, convert afterwards
				for i := 0; i < 9; i++ {
					s := drive.BlockSpec{Rates: R1(), OPRPayTo: A.String()}
					if i%2 == 1 {
						s.Rates = R2()
					}
					b.Add(s)
				}
				b.Add(g(drive.BlockSpec{TX: []fake.Entry{b.Tx(KA, kit.Conversion(A, "PEG", 1000e8, "pUSD")), b.Tx(KA, kit.Conversion(A, "PEG", 500e8, "pEUR"))}}))
				b.Add(g(drive.BlockSpec{Rates: R2()}))
				b.Add(g(drive.BlockSpec{}))
			},
			window: func(b *drive.Builder) {
				b.AddEmpty(1)
				b.Add(g(drive.BlockSpec{Rates: R1(), TX: []fake.Entry{b.Tx(KA, kit.Conversion(A, "pUSD", 7e8, "pEUR"))}}))
				b.Add(g(drive.BlockSpec{Rates: R2(), TX: []fake.Entry{b.Tx(KA, kit.Conversion(A, "pEUR", 3e8, "pUSD"))}}))
				b.Add(g(drive.BlockSpec{Rates: R1()}))
			}})
	}
	// process history again: the same signed entry is written twice, first 13 h before its salt (outside the validity window:
	// inert), then 80 blocks later inside the window; restart or not before each of the last three blocks
	{
		era := drive.EraStage(drive.StPIP10)
		era.Name = "pip10"
		out = append(out, c01Scenario{name: "process-history/entry-outside-then-inside-its-validity-window", era: era, history: true, historyLast: 3,
			prefix: func(b *drive.Builder) { FundStd(b); b.Add(g(drive.BlockSpec{})) },
			window: func(b *drive.Builder) {
				e := kit.SignBatch(b.Chain.IDs.TX, b.Chain.EntryUnix(b.Next(), 1)+13*3600, kit.Key(KA), kit.Transfer(A, "pUSD", 9e8, AddrB))
				b.Add(g(drive.BlockSpec{TX: []fake.Entry{e}}))
				b.AddEmpty(78)
				b.Add(g(drive.BlockSpec{}))
				b.Add(g(drive.BlockSpec{TX: []fake.Entry{e}}))
				b.Add(g(drive.BlockSpec{Rates: R2()}))
			}})
	}
	// concurrent entry fetches
	for _, k := range []int{3, 4, 13} {
		if k == 4 && !thorough {
			continue
		}
		fault := false
		if k == 13 {
			k, fault = 3, true // three entries again, one transient fetch failure: completion order x retry
		}
		k := k
		era := drive.EraStage(drive.StPIP10)
		era.Name = "pip10"
		nm := fmt.Sprintf("concurrent-fetch/%d-entries", k)
		if fault {
			nm += "+one-transient-fetch-failure"
		}
		out = append(out, c01Scenario{name: nm, era: era, fetchK: k, fetchFault: fault,
			prefix: func(b *drive.Builder) { FundStd(b); b.Add(g(drive.BlockSpec{})) },
			window: func(b *drive.Builder) {
				var es []fake.Entry
				for i := 0; i < k; i++ {
					if i%2 == 0 {
						es = append(es, b.Tx(KA, kit.Transfer(A, "pUSD", uint64(90e8+i), AddrB)))
					} else {
						es = append(es, b.Tx(KA, kit.Conversion(A, "pUSD", uint64(80e8+i), "pEUR")))
					}
				}
				b.Add(g(drive.BlockSpec{TX: es}))
				b.Add(g(drive.BlockSpec{Rates: R2()}))
			}})
	}
	return out
}

// c01Who names the special addresses among the differing pn_addresses rows.
func c01Who(diff []string) string {
	mint, _ := factom.NewFAAddress(node.GlobalMintAddress)
	ob, gb := OldBurn(), GlobalBurn()
	names := map[string]string{fmt.Sprintf("%x", ob[:]): "old-burn-address", fmt.Sprintf("%x", gb[:]): "burn-address", fmt.Sprintf("%x", mint[:]): "mint-address"}
	set := map[string]bool{}
	for _, l := range diff {
		if !strings.Contains(l, "pn_addresses: ") {
			continue
		}
		who := "other-addresses"
		for hx, nm := range names {
			if strings.Contains(l, "address=x'"+hx+"'") {
				who = nm
			}
		}
		set[who] = true
	}
	if len(set) == 0 {
		return ""
	}
	var out []string
	for k := range set {
		out = append(out, k)
	}
	sort.Strings(out)
	return ":" + strings.Join(out, "+")
}

type c01Exec struct {
	perHeight []canon.Dump
	points []c01Point
	picked []int
	dump   canon.Dump
	out    drive.Outcome
	hash   string
}

func c01Execute(w *World, sc c01Scenario, choices []int) *c01Exec {
	ex := &c01Exec{}
	run := w.Fork()
	defer run.Close()
	sc.window(run.B)
	var mu sync.Mutex
	ci := 0
	choose := func(site string, n int, alts int) int {
		mu.Lock()
		defer mu.Unlock()
		pick := 0
		if ci < len(choices) {
			pick = choices[ci]
			if pick >= alts {
				panic(fmt.Sprintf("harness: divergence while replaying a prefix at point %d (%s): %d alternatives, choice %d", ci, site, alts, pick))
			}
		}
		ci++
		ex.points = append(ex.points, c01Point{site, n, alts})
		ex.picked = append(ex.picked, pick)
		return pick
	}
	verifrt.Hook = func(site string, n int) []int {
		ps := permsOf(n)
		return ps[choose(site, n, len(ps))]
	}
	defer func() { verifrt.Hook = nil }()
	d := run.Open(nil)
	var onReq func(fake.Req) fake.FaultKind
	faultFired := false
	if sc.fetchK > 0 {
		// completion order of the concurrent fetches of the first window block's transaction entries
		_, _, txh, _, _ := run.B.Chain.Hashes(w.B.Chain.Tip() + 1)
		ps := permsOf(len(txh))
		order := ps[choose("fetch-order", len(txh), len(ps))]
		pos := map[string]int{}
		for rank, idx := range order {
			pos[fmt.Sprintf("%x", txh[idx][:])] = rank
		}
		var gm sync.Mutex
		cond := sync.NewCond(&gm)
		next := 0
		if sc.fetchFault {
			first := fmt.Sprintf("%x", txh[0][:])
			onReq = func(rq fake.Req) fake.FaultKind {
				if !faultFired && rq.Key == first {
					faultFired = true
					return fake.FaultTransport
				}
				return fake.NoFault
			}
		}
		gated := map[string]bool{}
		d.Fake.Gate = func(r fake.Req) {
			rank, ok := pos[r.Key]
			if !ok {
				return
			}
			gm.Lock()
			if gated[r.Key] {
				gm.Unlock()
				return // a later attempt of the block: only the first round is ordered
			}
			gated[r.Key] = true
			for rank != next {
				cond.Wait()
			}
			next++
			cond.Broadcast()
			gm.Unlock()
		}
	}
	if sc.history {
		if pv, e := ReadLedger(drive.DBFileOf(w.DBPath)); e != nil || pv.Bal(AddrA, "pUSD") == 0 || pv.Bal(AddrA, "pEUR") == 0 {
			panic("harness: C01 process-history scenario: the spender is not funded at the end of the prefix")
		}
		// start as the node that synced the prefix (its whole in-memory state), not as a restarted one
		d.Close()
		cd, err := drive.Continue(run.DBPath, fake.NewNode(run.B.Chain), nil, false)
		if err != nil {
			panic("harness: " + err.Error())
		}
		cd.CacheRestore(w.Cache)
		run.D = cd
		for h := w.B.Chain.Tip() + 1; h <= run.B.Chain.Tip(); h++ {
			if sc.historyLast > 0 && h+uint32(sc.historyLast) <= run.B.Chain.Tip() {
				// no choice here: the node keeps running
			} else if choose("restart-before-block", 2, 2) == 1 {
				run.D.Close()
				run.D = nil
				run.Open(nil)
			}
			ex.out = run.SyncTo(h)
			if !ex.out.Reached {
				break
			}
		}
	} else if sc.retry {
		for h := w.B.Chain.Tip() + 1; h <= run.B.Chain.Tip(); h++ {
			which := choose("transient-upstream-failure-in-block", 3, 3)
			fired, sawDBlock := false, false
			h := h
			req := func(rq fake.Req) fake.FaultKind {
				if which == 0 || fired || rq.Kind == "heights" {
					return fake.NoFault
				}
				if rq.Kind == "dblock" && rq.Height == h {
					sawDBlock = true
					if which == 1 {
						fired = true
						return fake.FaultTransport
					}
					return fake.NoFault
				}
				if sawDBlock && which == 2 {
					fired = true
					return fake.FaultTransport
				}
				return fake.NoFault
			}
			ex.out = run.D.SyncTo(h, drive.SyncOpts{OnRequest: req, FaultPending: func() bool { return which != 0 && !fired }})
			if !ex.out.Reached {
				break
			}
			// the ledger after EVERY block counts, not only the last one (a later adjustment may paper over an earlier difference)
			if pd, err := canon.File(drive.DBFileOf(run.DBPath), canon.Ledger); err != nil {
				panic("harness: dump: " + err.Error())
			} else {
				ex.perHeight = append(ex.perHeight, pd)
			}
			if which != 0 && !fired {
				panic("harness: C01 retry scenario: the fault never fired")
			}
		}
	} else {
		ex.out = run.D.SyncTo(run.B.Chain.Tip(), drive.SyncOpts{OnRequest: onReq, FaultPending: func() bool { return sc.fetchFault && !faultFired }})
		if sc.fetchFault && !faultFired {
			panic("harness: C01 fetch-fault scenario: the fault never fired")
		}
	}
	ex.dump = run.Dump(canon.Ledger)
	ex.hash = ex.dump.Hash()
	for _, d := range ex.perHeight {
		ex.hash += "." + d.Hash()
	}
	return ex
}

func runC01(c *core.Ctx, r *core.Result) {
	if (c.Only == "" && c.Shard == 0) || strings.HasPrefix(c.Only, "upgrade-history/") {
		c01UpgradeHistory(c, r)
		if c.Only != "" {
			return
		}
	}
	bound := 2
	if c.Thorough() {
		bound = 3
	}
	if rp := os.Getenv("PVMC_RANGEPERM_REPORT"); rp != "" && c.Shard == 0 {
		if b, err := os.ReadFile(rp); err == nil {
			var rep struct {
				Sites []map[string]string `json:"sites"`
			}
			json.Unmarshal(b, &rep)
			var ids []string
			for _, s := range rep.Sites {
				if s["skipped"] != "" {
					ids = append(ids, s["id"]+" (NOT rewritten: "+s["skipped"]+")")
				} else {
					ids = append(ids, s["id"])
				}
			}
			r.Note("map ranges under explorer control: %s", strings.Join(ids, ", "))
		}
	}
	branch := 0
	for _, sc := range c01Scenarios(c.Thorough()) {
		if c.Only != "" && !strings.HasPrefix(c.Only, sc.name) {
			continue
		}
		w := MustWorld(sc.era, sc.prefix)
		outcomes := map[string][]int{}
		dumps := map[string]canon.Dump{}
		perHeight := map[string][]canon.Dump{}
		count := 0
		var explore func(prefix []int, dev int, devSmall int, bigUsed bool)
		explore = func(prefix []int, dev int, devSmall int, bigUsed bool) {
			if c.Expired() {
				r.Capped(fmt.Sprintf("deadline in %s after %d executions", sc.name, count))
				return
			}
			ex := c01Execute(w, sc, prefix)
			count++
			r.Eval()
			r.Traces++
			r.Transitions += len(ex.points)
			r.AddState(sc.name + "|" + fmt.Sprint(ex.picked))
			if dev > 0 {
				r.NonTrivial(sc.name + "|" + fmt.Sprint(prefix))
			}
			key := ex.hash
			if !ex.out.Reached {
				key = "not-synced:" + outcomeClass(ex.out)
			}
			if _, seen := outcomes[key]; !seen {
				outcomes[key] = append([]int{}, prefix...)
				dumps[key] = ex.dump
				perHeight[key] = ex.perHeight
			}
			for i := len(prefix); i < len(ex.points); i++ {
				p := ex.points[i]
				big := p.n > 4
				if dev+1 > bound {
					break
				}
				if big && (bigUsed || dev > 0) {
					continue // deviations at large maps only as the single deviation of an execution
				}
				if !big && bigUsed {
					continue
				}
				for alt := 1; alt < p.alts; alt++ {
					if len(prefix) == 0 {
						// top-level branches are spread over the worker processes
						branch++
						if !c.Mine(branch) && c.Only == "" {
							continue
						}
					}
					np := append(append([]int{}, ex.picked[:i]...), alt)
					explore(np, dev+1, devSmall, bigUsed || big)
				}
			}
		}
		explore(nil, 0, 0, false)
		w.Close()
		r.Count("executions:"+sc.name, count)
		r.Outcome(fmt.Sprintf("%s:distinct-ledgers-seen-by-a-worker=%d", strings.Split(sc.name, "/")[0], len(outcomes)))
		if len(outcomes) > 1 {
			// every distinct ledger is compared with the one of the default execution (no deviation: the first one run), and
			// named by what differs, so that a listed finding about one special address does not cover another
			var keys []string
			ref := ""
			for k, pv := range outcomes {
				if len(pv) == 0 {
					ref = k
				} else {
					keys = append(keys, k)
				}
			}
			sort.Strings(keys)
			if ref == "" {
				ref, keys = keys[0], keys[1:]
			}
			for _, k := range keys {
				da, db := dumps[ref], dumps[k]
				at := ""
				for i := range perHeight[ref] {
					if i < len(perHeight[k]) && !canon.Equal(perHeight[ref][i], perHeight[k][i]) {
						da, db = perHeight[ref][i], perHeight[k][i]
						at = fmt.Sprintf(" (first difference after window block %d)", i+1)
						break
					}
				}
				tables := canon.TablesDiffering(da, db)
				diff := joinDiff(da, db)
				r.Violate(core.Violation{Key: fmt.Sprintf("%s/%v-vs-%v", sc.name, outcomes[ref], outcomes[k]),
					Signature: fmt.Sprintf("C01:ledger-depends-on-iteration-or-completion-order:%s:%s%s", strings.Split(sc.name, "/")[0], strings.Join(tables, "+"), c01Who(diff)),
					Desc:      fmt.Sprintf("scenario %s: %d distinct ledgers over %d executions; choice vectors %v and %v (index of the order chosen at each dynamic map range / fetch set / fault placement) give different dumps%s", sc.name, len(outcomes), count, outcomes[ref], outcomes[k], at),
					Detail:    diff})
			}
		}
		if len(r.Samples) < 4 {
			r.Sample(map[string]interface{}{"scenario": sc.name, "executions": count, "distinct_ledgers": len(outcomes)})
		}
	}
}

package props

import (
	"fmt"
	"strings"

	"pegverif/canon"
	"pegverif/core"
	"pegverif/drive"
	"pegverif/fake"
	"pegverif/kit"
	"pegverif/sqlw"
)

// C06 At-most-once execution of an entry.
//
// Explicit-state exploration over chains: entry E (5 kinds) is written once in
// window block 0 and 1..k further times in every placement over a window of W
// blocks with every graded/ungraded pattern {G,U}^W, in three eras. Oracle:
// the ledger (all tables, blockorder of *other* entries excluded) of the chain
// with duplicates equals that of the chain with the first occurrence only.
func init() {
	core.Register(&core.Prop{
		ID: "C06", Level: "model_checking",
		Rule: "chain = funding prefix + window of W blocks, each G (graded), U (no oracle records), S (priced by staking records only) or W (oracle records present but too few to have winners), entry E of one of 5 kinds (executing transfer, rejected transfer, executing conversion, rejected conversion, conversion whose input address is unfunded when first considered and funded afterwards; 'pending' arises from unpriced suffixes) in window block 0, extra copies of E at every placement (same block adjacent/after another entry, each later block); family (i): every {G,U}^W x every placement of up to k copies; family (ii): every pattern over {G,U,S,W}^4 containing S or W, without copies and with one later copy. Oracles: ledger of the chain with duplicates == ledger of the chain with first occurrences only; and on every chain, after every committed block, a recorded entry whose status is non-zero never changes status again (considered exactly once). Non-trivial = chain that synced and whose reference recorded a status for E; distinct by (era, kind, pattern, placement)",
		Assumptions: []string{"SQLite atomic commit", "grader library defines winners", "fake Factom node serves well-formed blocks"},
		Run:         runC06,
	})
}

type c06Kind struct {
	name string
	mk   func(b *drive.Builder) fake.Entry
	// fundLater: the input address (B) receives funds in window block 2, i.e. possibly
	// after the entry was first considered and rejected
	fundLater bool
}

func c06Kinds(e drive.Era) []c06Kind {
	A, B, C := AddrA, AddrB, AddrC
	ks := []c06Kind{
		{"xfer-ok", func(b *drive.Builder) fake.Entry { return b.Tx(KA, kit.Transfer(A, "pUSD", 5e8, B)) }, false},
		{"xfer-rej", func(b *drive.Builder) fake.Entry { return b.Tx(KB, kit.Transfer(B, "pUSD", 7e8, C)) }, false},
		{"conv-ok", func(b *drive.Builder) fake.Entry { return b.Tx(KA, kit.Conversion(A, "pUSD", 10e8, "pEUR")) }, false},
		{"conv-rej", func(b *drive.Builder) fake.Entry { return b.Tx(KA, kit.Conversion(A, "pUSD", 1e17, "pEUR")) }, false},
		{"conv-unfunded-then-funded", func(b *drive.Builder) fake.Entry { return b.Tx(KB, kit.Conversion(B, "pUSD", 5e8, "pEUR")) }, true},
	}
	return ks
}

func c06Eras() []drive.Era {
	return []drive.Era{drive.EraStage(drive.StTx), drive.EraStage(drive.StV4), drive.EraStage(drive.StPIP10)}
}

// placement: for each extra copy the window block index and, for block 0, whether it comes after the filler.
type c06Place struct {
	blk   int
	after bool // only for blk 0: after the filler entry
}

func (p c06Place) String() string {
	if p.blk == 0 {
		if p.after {
			return "0b"
		}
		return "0a"
	}
	return fmt.Sprint(p.blk)
}

func c06Placements(W, copies int) [][]c06Place {
	var single []c06Place
	single = append(single, c06Place{0, false}, c06Place{0, true})
	for j := 1; j < W; j++ {
		single = append(single, c06Place{j, false})
	}
	var out [][]c06Place
	for i := range single {
		out = append(out, []c06Place{single[i]})
	}
	if copies >= 2 {
		for i := range single {
			for j := i; j < len(single); j++ {
				out = append(out, []c06Place{single[i], single[j]})
			}
		}
	}
	if copies >= 3 {
		for i := range single {
			for j := i; j < len(single); j++ {
				for k := j; k < len(single); k++ {
					out = append(out, []c06Place{single[i], single[j], single[k]})
				}
			}
		}
	}
	return out
}

// blockorder of other entries and the key MR of the entry block legitimately
// differ when extra copies are present in a block: neither is ledger state.
var c06Proj = canon.LedgerNZ.Without("pn_history_txbatch", "blockorder").Without("pn_transaction_batch_holding", "eblock_keymr")

// c06HeldOnce: "a conversion placed in holding is considered for execution exactly once", checked absolutely (no
// copies involved): a held conversion waits over k blocks without rates; when the next graded block executes it, the
// source is debited once and the destination credited once, at that block's rates.
func c06HeldOnce(c *core.Ctx, r *core.Result) {
	idx := 0
	for _, st := range []int{drive.StPegPrice, drive.StBank, drive.StV4, drive.StV202} {
		era := drive.EraStage(st)
		dsts := []string{"pEUR", "PEG"}
		if st >= drive.StV20 {
			dsts = []string{"pEUR"}
		}
		for _, dst := range dsts {
			for k := 0; k <= 3; k++ {
				idx++
				if !c.Mine(idx) && c.Only == "" {
					continue
				}
				key := fmt.Sprintf("held-once/%s/pUSD>%s/%d-blocks-without-rates", era.Name, dst, k)
				if !c.Want(key) {
					continue
				}
				r.Eval()
				amount := uint64(5e8)
				var hExec uint32
				w, err := NewWorld(era, func(b *drive.Builder) {
					FundStd(b)
					b.Add(drive.BlockSpec{Rates: R1(), OPRPayTo: kit.AddrStr(KM), TX: []fake.Entry{b.Tx(KA, kit.Conversion(AddrA, "pUSD", amount, dst))}})
					b.AddEmpty(k)
					hExec = b.Next()
					b.Add(drive.BlockSpec{Rates: R2(), OPRPayTo: kit.AddrStr(KM)})
					b.Add(drive.BlockSpec{Rates: R1(), OPRPayTo: kit.AddrStr(KM)})
					b.AddEmpty(1)
					b.Add(drive.BlockSpec{Rates: R2(), OPRPayTo: kit.AddrStr(KM)})
				})
				if err != nil {
					r.Count("inconclusive-chain-does-not-sync", 1)
					continue
				}
				v, e := ReadLedger(drive.DBFileOf(w.DBPath))
				w.Close()
				if e != nil {
					panic("harness: " + e.Error())
				}
				usd0, _ := seqFunds(era)
				want, ok := RefConvert(int64(amount), v.Rates[hExec]["pUSD"], v.Rates[hExec][dst])
				if !ok {
					r.Count("inconclusive-unconvertible", 1)
					continue
				}
				r.NonTrivial(key)
				gotSrc := int64(usd0) - int64(v.Bal(AddrA, "pUSD"))
				// A mined PEG during the funding prefix only; later blocks pay the miner KM
				pegBase := uint64(0)
				if dst == "PEG" {
					if wb, err2 := NewWorld(era, FundStd); err2 == nil {
						if vb, e2 := ReadLedger(drive.DBFileOf(wb.DBPath)); e2 == nil {
							pegBase = vb.Bal(AddrA, "PEG")
						}
						wb.Close()
					}
				}
				gotDst := int64(v.Bal(AddrA, dst)) - int64(pegBase)
				if dst == "pEUR" {
					_, eur0 := seqFunds(era)
					gotDst = int64(v.Bal(AddrA, dst)) - int64(eur0)
				}
				if gotSrc != int64(amount) || gotDst != want {
					r.Violate(core.Violation{Key: key, Signature: "C06:held-conversion-not-applied-exactly-once:" + era.Name + ":" + dst,
						Desc: fmt.Sprintf("a conversion of %d pUSD into %s held over %d blocks without rates and executed at %d: source debited %d (once = %d), destination credited %d (once = %d)", amount, dst, k, hExec, gotSrc, amount, gotDst, want)})
				}
			}
		}
	}
}

func runC06(c *core.Ctx, r *core.Result) {
	if c.Only == "" || strings.HasPrefix(c.Only, "held-once/") {
		c06HeldOnce(c, r)
	}
	W := 4
	copies := 2
	if c.Thorough() {
		W, copies = 5, 3
	}
	idx := 0
	for _, era := range c06Eras() {
		var w *World
		world := func() *World {
			if w == nil {
				w = MustWorld(era, FundStd)
			}
			return w
		}
		// pattern families: (i) every {G,U}^W with every duplicate placement; (ii) every {G,U,S,W}^4
		// containing S or W, without duplicates and with one later copy ("considered exactly once")
		type job struct {
			pattern string
			places  [][]c06Place
		}
		var jobs []job
		for pat := 0; pat < 1<<uint(W); pat++ {
			ps := ""
			for j := 0; j < W; j++ {
				if pat>>uint(j)&1 == 1 {
					ps += "G"
				} else {
					ps += "U"
				}
			}
			jobs = append(jobs, job{ps, c06Placements(W, copies)})
		}
		letters := "GUW"
		if era.V20 == 0 {
			letters = "GUSW"
		}
		var ls []string
		for _, ch := range letters {
			ls = append(ls, string(ch))
		}
		for _, sq := range seqs(ls, 4) {
			ps := strings.Join(sq, "")
			if len(ps) != 4 || !strings.ContainsAny(ps, "SW") {
				continue
			}
			jobs = append(jobs, job{ps, [][]c06Place{{}, {{blk: 3}}, {{blk: 1}}}})
		}
		for _, kind := range c06Kinds(era) {
			for _, jb := range jobs {
				if strings.ContainsAny(jb.pattern, "SW") && !(kind.name == "conv-ok" || kind.fundLater) {
					continue
				}
				groupKey := fmt.Sprintf("%s/%s/%s", era.Name, kind.name, jb.pattern)
				idx++
				if !c.Mine(idx) && c.Only == "" {
					continue
				}
				if c.Only != "" && !strings.HasPrefix(c.Only, groupKey+"/") {
					continue
				}
				if c.Expired() {
					r.Capped("deadline reached before " + groupKey)
					if w != nil {
						w.Close()
					}
					return
				}
				// reference: first occurrence only
				ref, refOut, refExec, refChanged := c06RunPattern(world(), kind, jb.pattern, nil, r, false)
				if !refOut.Reached {
					r.Count("reference-chain-"+outcomeClass(refOut), 1)
					continue
				}
				if refChanged != "" {
					r.Violate(core.Violation{Key: groupKey + "/", Signature: "C06:" + era.Name + ":" + kind.name + ":status-changed-after-final",
						Desc: "an entry whose status was already final (executed or rejected) was considered again: " + refChanged + " (chain without any duplicate, pattern " + jb.pattern + ": G graded, U ungraded, S priced by SPRs only, W graded without winners)"})
				}
				for _, pl := range jb.places {
					var ps []string
					for _, p := range pl {
						ps = append(ps, p.String())
					}
					key := groupKey + "/" + strings.Join(ps, ",")
					if len(pl) == 0 {
						// the reference chain itself is the evaluation (considered-once invariant)
						r.Eval()
						r.NonTrivial(key)
						r.Outcome(kind.name + ":no-duplicate:" + refExec)
						continue
					}
					if !c.Want(key) {
						continue
					}
					r.Eval()
					got, out, _, changed := c06RunPattern(world(), kind, jb.pattern, pl, r, true)
					oc := outcomeClass(out)
					r.Outcome(kind.name + ":" + oc)
					if !out.Reached {
						// the chain of first occurrences was applied (ref exists), the chain with the copies cannot be: the copies changed
						// what the ledger becomes - by stopping it
						r.Violate(core.Violation{Key: key, Signature: fmt.Sprintf("C06:%s:%s:chain-with-copies-cannot-be-applied:%s", era.Name, kind.name, errClass(out.LastErr+out.DiedMsg)),
							Desc: "the chain with duplicate copies of an entry cannot be applied although the chain with the first occurrence only can: " + out.String()})
						c.Logf("%s: %s", key, out)
						continue
					}
					if refExec != "" {
						r.NonTrivial(key)
					}
					if changed != "" && refChanged == "" {
						r.Violate(core.Violation{Key: key, Signature: "C06:" + era.Name + ":" + kind.name + ":status-changed-after-final",
							Desc: "an entry whose status was already final was considered again: " + changed})
					}
					if !canon.Equal(ref, got) {
						r.Violate(core.Violation{Key: key,
							Signature: fmt.Sprintf("C06:%s:%s:ledger-differs:%s", era.Name, kind.name, strings.Join(canon.TablesDiffering(ref, got), "+")),
							Desc:      "chain with duplicate copies of an entry yields a different ledger than the chain with the first occurrence only",
							Detail:    joinDiff(ref, got)})
					}
					r.Sample(map[string]string{"scenario": key, "outcome": oc, "E_status_in_reference": refExec})
				}
			}
		}
		if w != nil {
			w.Close()
		}
	}
}

// c06Run runs one chain. placements == nil: reference chain.
func c06Run(w *World, kind c06Kind, W, pat int, pl []c06Place, res *core.Result, track bool) (canon.Dump, drive.Outcome, string) {
	ps := ""
	for j := 0; j < W; j++ {
		if pat>>uint(j)&1 == 1 {
			ps += "G"
		} else {
			ps += "U"
		}
	}
	d, o, st, _ := c06RunPattern(w, kind, ps, pl, res, track)
	return d, o, st
}

// c06RunPattern: pattern letters: G graded with winners, U no OPR records, S priced by SPRs only (2.x),
// W OPR records present but too few to have winners (graded, no rates). Returns also a description of
// any entry whose recorded status changed after it had become final.
func c06RunPattern(w *World, kind c06Kind, pattern string, pl []c06Place, res *core.Result, track bool) (canon.Dump, drive.Outcome, string, string) {
	W := len(pattern)
	run := w.Fork()
	defer run.Close()
	b := run.B
	var E fake.Entry
	for j := 0; j < W; j++ {
		s := drive.BlockSpec{}
		switch pattern[j] {
		case 'G':
			s.Rates = R1()
			s.OPRPayTo = kit.AddrStr(KM)
		case 'S':
			s.SPR = sprSet(w.Era, b.Next(), R1(), AddrA[:], KA, 25)
		case 'W':
			s.Rates = R1()
			s.NOPR = 3
			s.OPRPayTo = kit.AddrStr(KM)
		}
		if j == 2 && kind.fundLater {
			s.TX = append(s.TX, b.Tx(KA, kit.Transfer(AddrA, "pUSD", 10e8, AddrB)))
		}
		if j == 0 {
			E = kind.mk(b)
			filler := b.Tx(KA, kit.Transfer(AddrA, "pUSD", 1e8, AddrC))
			s.TX = append(s.TX, E)
			for _, p := range pl {
				if p.blk == 0 && !p.after {
					s.TX = append(s.TX, E)
				}
			}
			s.TX = append(s.TX, filler)
			for _, p := range pl {
				if p.blk == 0 && p.after {
					s.TX = append(s.TX, E)
				}
			}
		} else {
			for _, p := range pl {
				if p.blk == j {
					s.TX = append(s.TX, E)
				}
			}
		}
		b.Add(s)
	}
	// one closing graded block so that anything still pending after the window gets its chance in both chains
	b.Add(drive.BlockSpec{Rates: R2(), OPRPayTo: kit.AddrStr(KM)})
	st := NewStateTracker()
	d := run.Open(nil)
	final := map[string]int64{}
	changed := ""
	hk := st.Hooks(d.DBFile(), func() uint32 { return SyncedOf(d.DBFile()) })
	inner := hk.After
	hk.After = func(op *sqlw.Op, err error) {
		if track {
			inner(op, err)
		}
		if op.Kind != "commit" || err != nil {
			return
		}
		// status finality: once a recorded entry has a non-zero status it never changes
		for k, ex := range readStatuses(d.DBFile()) {
			if prev, ok := final[k]; ok && prev != ex && changed == "" {
				changed = fmt.Sprintf("entry %s… (hash@recorded height): status %d became %d at height %d", k[:12]+k[64:], prev, ex, SyncedOf(d.DBFile()))
			}
			if ex != 0 {
				final[k] = ex
			}
		}
	}
	d.DB.SetHooks(hk)
	out := run.Sync()
	if track {
		for h := range st.States {
			res.AddState(h)
		}
		res.Transitions += st.Transitions
		if out.Reached {
			res.Traces++
		}
	}
	dump := run.Dump(c06Proj)
	// status of E in the history
	status := ""
	eh := fake.EntryHash(b.Chain.IDs.TX, E)
	needle := fmt.Sprintf("entry_hash=x'%x'", eh[:])
	for _, row := range dump["pn_history_txbatch"] {
		if strings.Contains(row, needle) {
			status = row[strings.Index(row, "executed="):]
		}
	}
	return dump, out, status, changed
}

package props

import (
	"github.com/Factom-Asset-Tokens/factom"
	"pegverif/drive"
	"pegverif/fake"
	"pegverif/kit"
)

// Coverage chains: one chain per era group that exercises as many block-pipeline
// code paths as possible (used by C02, C10, C12's immutability invariant, C04).

// Coverage describes a coverage chain.
type Coverage struct {
	Name  string
	Era   drive.Era
	Build func(b *drive.Builder)
	// Interesting reports whether height h deserves per-statement treatment.
	Interesting func(h uint32) bool
	// ImageStride, if set, thins the crash points of height h to every n-th operation (and the last ones before COMMIT).
	ImageStride func(h uint32) int
}

// CoverageLargeBlock: one block whose transaction writes more pages than SQLite keeps in memory (16,000 new address rows
// with their history rows, several MB against the default 2 MB page cache), so that SQLite writes uncommitted pages into the
// database file before COMMIT: crash consistency then rests on what the journal on disk holds at that instant.
func CoverageLargeBlock() Coverage {
	e := drive.EraStage(drive.StPIP10)
	e.Name = "pip10-large-block"
	big := e.Base + 6
	return Coverage{Name: "large-block", Era: e, Interesting: func(h uint32) bool { return h == big },
		ImageStride: func(h uint32) int {
			if h == big {
				return 25000
			}
			return 1
		},
		Build: func(b *drive.Builder) {
			FundStd(b) // Base+1..Base+4
			g := drive.BlockSpec{Rates: R1(), OPRPayTo: kit.AddrStr(KM)}
			b.Add(g) // Base+5
			var tx []fake.Entry
			n := uint32(0)
			for i := 0; i < 400; i++ {
				t := kit.Tx{From: AddrA, Asset: "pUSD", Amount: 40}
				for j := 0; j < 40; j++ {
					n++
					var a factom.FAAddress
					a[0], a[1], a[2], a[3], a[31] = 0xbb, byte(n>>16), byte(n>>8), byte(n), 0x01
					t.To = append(t.To, kit.Out{Addr: a, Amount: 1})
				}
				tx = append(tx, b.Tx(KA, t))
			}
			if b.Next() != big {
				panic("harness: large-block coverage misaligned")
			}
			b.Add(drive.BlockSpec{Rates: R2(), OPRPayTo: kit.AddrStr(KM), TX: tx}) // Base+6
			b.Add(g)
			b.Add(g)
		}}
}

const cb = drive.B // 288

// eraLegacyTimeline compresses the pre-2.0 mainnet timeline into ~20 blocks.
func eraLegacyTimeline() drive.Era {
	e := drive.EraStage(drive.StV1)
	e.Name = "legacy-timeline"
	e.GradingV2 = cb + 3
	e.TxConv = cb + 5
	e.PEGPricing = cb + 8
	e.OneWayFCT = cb + 11
	e.ConvLimit = cb + 13
	e.FreeFloat = cb + 13
	e.V4 = cb + 18
	e.RCDe = cb + 18
	return e
}

// CoverageAcross100 is a short chain at small heights (95..108): the height, as a decimal string, gains a digit
// in the middle of it (nothing in the protocol depends on that, which is the point).
func CoverageAcross100() Coverage {
	e := drive.EraStage(drive.StV4)
	e.Name = "v4-heights-95-108"
	e.Base = 94
	A, B := AddrA, AddrB
	return Coverage{Name: "across-100", Era: e, Interesting: func(h uint32) bool { return true },
		Build: func(b *drive.Builder) {
			FundStd(b) // 95..98
			g := func(s drive.BlockSpec) drive.BlockSpec {
				if s.Rates == nil {
					s.Rates = R1()
				}
				s.OPRPayTo = kit.AddrStr(KM)
				return s
			}
			b.Add(g(drive.BlockSpec{TX: []fake.Entry{b.Tx(KA, kit.Transfer(A, "pUSD", 5e8, B))}}))                                       // 99
			b.Add(g(drive.BlockSpec{Rates: R2(), TX: []fake.Entry{b.Tx(KA, kit.Conversion(A, "pUSD", 7e8, "pEUR"))}}))                  // 100
			b.Add(g(drive.BlockSpec{TX: []fake.Entry{b.Tx(KB, kit.Transfer(B, "pUSD", 1e8, A)), b.Tx(KA, kit.Conversion(A, "pUSD", 9e8, "PEG"))}})) // 101
			b.Add(drive.BlockSpec{TX: []fake.Entry{b.Tx(KA, kit.Transfer(A, "pEUR", 1e8, B))}})                                        // 102 ungraded
			for b.Next() <= 108 {
				b.Add(g(drive.BlockSpec{}))
			}
		}}
}

func CoverageLegacy() Coverage {
	e := eraLegacyTimeline()
	A, B, C := AddrA, AddrB, AddrC
	miner := A.String()
	return Coverage{Name: "legacy", Era: e, Interesting: func(h uint32) bool { return true },
		Build: func(b *drive.Builder) {
			r := R1()
			g := func(s drive.BlockSpec) drive.BlockSpec {
				if s.Rates == nil {
					s.Rates = r
				}
				s.OPRPayTo = miner
				return s
			}
			// 289..290: v1 grading, burns
			b.Add(g(drive.BlockSpec{Factoid: []fake.FTx{kit.Burn(KA, 3000e8, BurnRCD(), 11), kit.Burn(KB, 10e8, BurnRCD(), 12)}}))
			b.Add(g(drive.BlockSpec{}))
			// 291..292: v2 grading
			b.Add(g(drive.BlockSpec{}))
			b.Add(g(drive.BlockSpec{Factoid: []fake.FTx{kit.Burn(KA, 1e8, BurnRCD(), 13)}}))
			// 293 (TxConv active): transfers + conversions pFCT -> pUSD/pEUR, a rejected transfer
			b.Add(g(drive.BlockSpec{TX: []fake.Entry{
				b.Tx(KA, kit.Transfer(A, "pFCT", 5e8, B)),
				b.Tx(KA, kit.Conversion(A, "pFCT", 400e8, "pUSD"), kit.Conversion(A, "pFCT", 100e8, "pEUR")),
				b.Tx(KC, kit.Transfer(C, "pUSD", 1e8, A)), // rejected: C holds nothing
			}}))
			// 294: executes held conversions (PEG price zero phase)
			b.Add(g(drive.BlockSpec{TX: []fake.Entry{b.Tx(KB, kit.Conversion(B, "pFCT", 2e8, "pUSD"))}}))
			// 295: ungraded block with a pending conversion and a transfer
			b.Add(drive.BlockSpec{TX: []fake.Entry{
				b.Tx(KA, kit.Conversion(A, "pUSD", 50e8, "pEUR")),
				b.Tx(KA, kit.Transfer(A, "pUSD", 7e8, C)),
			}})
			// 296 (PEG equation pricing): executes both held heights
			b.Add(g(drive.BlockSpec{Rates: R2()}))
			// 297: PEG -> pUSD with equation price; multi-tx batch
			b.Add(g(drive.BlockSpec{TX: []fake.Entry{
				b.Tx(KA, kit.Conversion(A, "PEG", 100e8, "pUSD")),
				b.Tx(KA, kit.Transfer(A, "pUSD", 1e8, B), kit.Transfer(A, "pEUR", 1e8, B), kit.Conversion(A, "pUSD", 3e8, "pFCT")),
			}}))
			b.Add(g(drive.BlockSpec{}))
			// 299 (one-way pFCT): conversion into pFCT rejected (-3)
			b.Add(g(drive.BlockSpec{TX: []fake.Entry{b.Tx(KA, kit.Conversion(A, "pUSD", 3e8, "pFCT"))}}))
			b.Add(g(drive.BlockSpec{}))
			// 301 (bank per height, v3 grading): PEG requests above the bank -> proportional + refund
			b.Add(g(drive.BlockSpec{TX: []fake.Entry{
				b.Tx(KA, kit.Conversion(A, "pUSD", 300e8, "PEG")),
				b.Tx(KB, kit.Conversion(B, "pFCT", 1e8, "PEG")),
				b.Tx(KA, kit.Conversion(A, "pFCT", 2000e8, "PEG")),
			}}))
			b.Add(g(drive.BlockSpec{}))
			// 303: ungraded; 304: PEG request held over an ungraded block
			b.Add(drive.BlockSpec{TX: []fake.Entry{b.Tx(KA, kit.Conversion(A, "pEUR", 10e8, "PEG"))}})
			b.Add(g(drive.BlockSpec{TX: []fake.Entry{b.Tx(KA, kit.Conversion(A, "pUSD", 10e8, "PEG"))}}))
			b.Add(g(drive.BlockSpec{}))
			// 306 (V4: pooled bank, RCD-e, v4 assets)
			b.Add(g(drive.BlockSpec{TX: []fake.Entry{
				b.Tx(KA, kit.Conversion(A, "pUSD", 20e8, "PEG")),
				b.Tx(KA, kit.Conversion(A, "pUSD", 5e8, "pAUD")),
			}}))
			b.Add(g(drive.BlockSpec{Rates: R2(), TX: []fake.Entry{
				kit.SignBatch(drive.IDs.TX, b.Salt(), kit.EthKey(1), kit.Transfer(kit.EthKey(1).FAAddress(), "pUSD", 1, A)), // RCD-e, unfunded -> rejected
			}}))
			b.Add(g(drive.BlockSpec{}))
		}}
}

// era2xTimeline: PegNet 2.x with the later activations spread between two snapshots.
func era2xTimeline() drive.Era {
	e := drive.EraStage(drive.StV20)
	e.Name = "2x-timeline"
	e.DevRewards = 440
	e.SprSig = 440
	e.V202 = 450
	e.OneWaySmall = 450
	e.V204 = 460
	e.V204Burn = 470
	e.PIP10 = 560
	return e
}

func Coverage2x() Coverage {
	e := era2xTimeline()
	A, B, C := AddrA, AddrB, AddrC
	interesting := map[uint32]bool{}
	return Coverage{Name: "2x", Era: e, Interesting: func(h uint32) bool { return interesting[h] },
		Build: func(b *drive.Builder) {
			mark := func() { interesting[b.Next()] = true }
			g := func(s drive.BlockSpec) drive.BlockSpec {
				if s.Rates == nil {
					s.Rates = R1()
				}
				s.OPRPayTo = A.String()
				return s
			}
			add := func(s drive.BlockSpec) { mark(); b.Add(s) }
			emptyTo := func(h uint32) {
				if b.Next() < h {
					mark() // one empty block of every gap gets the full treatment
				}
				for b.Next() < h {
					b.AddEmpty(1)
				}
			}
			// 289..292: mining to A, conversions PEG -> pUSD / pEUR, transfer to B and to the old burn address
			add(g(drive.BlockSpec{}))
			add(g(drive.BlockSpec{}))
			add(g(drive.BlockSpec{TX: []fake.Entry{
				b.Tx(KA, kit.Conversion(A, "PEG", 2000e8, "pUSD"), kit.Conversion(A, "PEG", 1000e8, "pEUR")),
				b.Tx(KA, kit.Transfer(A, "PEG", 500e8, B)),
			}}))
			add(g(drive.BlockSpec{SPR: sprSet(e, b.Next(), R1(), A[:], KA, 25)}))
			add(g(drive.BlockSpec{TX: []fake.Entry{
				b.Tx(KA, kit.Transfer(A, "pUSD", 20e8, B), kit.Transfer(A, "pUSD", 3e8, OldBurn()), kit.Transfer(A, "pEUR", 2e8, GlobalBurn())),
				b.Tx(KB, kit.Conversion(B, "pUSD", 5e8, "PEG")), // into PEG: invalid from 2.0
				b.Tx(KC, kit.Transfer(C, "pUSD", 1e8, A)),       // rejected
			}}))
			add(g(drive.BlockSpec{Rates: R2()}))
			emptyTo(431)
			add(g(drive.BlockSpec{}))                                                       // 431
			add(g(drive.BlockSpec{TX: []fake.Entry{b.Tx(KA, kit.Transfer(A, "pUSD", 1e8, B))}})) // 432: first snapshot
			add(g(drive.BlockSpec{}))
			emptyTo(439)
			add(g(drive.BlockSpec{}))
			add(g(drive.BlockSpec{SPR: sprSet(e, b.Next(), R1(), A[:], KA, 26)})) // 440: dev-reward + SPR signature activation, old burn zeroing
			add(g(drive.BlockSpec{}))
			emptyTo(449)
			add(g(drive.BlockSpec{TX: []fake.Entry{b.Tx(KA, kit.Conversion(A, "pUSD", 4e8, "pDCR"))}}))
			add(g(drive.BlockSpec{SPR: sprSet(e, b.Next(), R1().With("EUR", 30e7), A[:], KA, 25)})) // 450: 2.0.2, new burn zeroing, one-way small assets, 25% band zeroes pEUR
			add(g(drive.BlockSpec{TX: []fake.Entry{b.Tx(KA, kit.Transfer(A, "pUSD", 2e8, GlobalBurn()))}}))
			emptyTo(459)
			add(g(drive.BlockSpec{}))
			add(g(drive.BlockSpec{})) // 460 mint
			// 461: the mint address receives an asset that was never minted (pEUR) and one that was: the mint burn takes back
			// what is left of the minted assets only
			mintAddr, _ := factom.NewFAAddress(c15MintAddress)
			add(g(drive.BlockSpec{TX: []fake.Entry{b.Tx(KA, kit.Transfer(A, "pEUR", 3e8, mintAddr), kit.Transfer(A, "pUSD", 1e8, mintAddr))}}))
			emptyTo(469)
			add(g(drive.BlockSpec{}))
			add(g(drive.BlockSpec{})) // 470 burn of minted
			add(g(drive.BlockSpec{}))
			// averaging window: keep every block graded from 556 on so that the PIP-10 window (4) is
			// fully rated and restart-independent when the activation (560) arrives
			emptyTo(556)
			for b.Next() < 575 {
				s := g(drive.BlockSpec{})
				if b.Next() == 562 {
					s.TX = []fake.Entry{b.Tx(KA, kit.Conversion(A, "pUSD", 9e8, "pEUR")), b.Tx(KB, kit.Conversion(B, "PEG", 10e8, "pUSD"))}
				}
				if b.Next()%2 == 0 {
					s.Rates = R2()
				}
				add(s)
			}
			add(g(drive.BlockSpec{TX: []fake.Entry{b.Tx(KA, kit.Conversion(A, "pUSD", 1e8, "pXBT"))}})) // 575
			add(g(drive.BlockSpec{}))                                                                       // 576: second snapshot: stakers paid, dev x144
			add(g(drive.BlockSpec{}))
		}}
}


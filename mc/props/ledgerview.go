package props

import (
	"database/sql"
	"encoding/hex"
	"fmt"
	"math/big"
	"sort"
	"strings"

	"github.com/Factom-Asset-Tokens/factom"
	_ "github.com/mattn/go-sqlite3"
	"github.com/pegnet/pegnetd/fat/fat2"
)

// LedgerView reads what a user can observe in a synced database: balances,
// rates per height, history rows. It is the observation side of the reference-model oracles.
type LedgerView struct {
	Balances map[string]map[string]uint64 // address(hex) -> asset -> balance
	Rates    map[uint32]map[string]uint64 // height -> asset ("PEG","pUSD",..) -> rate
	Batches  map[string][]BatchRow       // entry hash (hex) -> rows (one per height the hash was recorded at)
	Txs      map[string][]TxRow           // entry hash (hex) -> transaction rows ordered by tx_index
	Bank     map[uint32][3]int64          // height -> amount, used, requested
	Synced   uint32
	// Corrupt lists balances that are not non-negative 64-bit integers (they read as 2^64-1 in Balances)
	Corrupt []string
}

type BatchRow struct {
	Height     uint32
	BlockOrder int
	Timestamp  int64
	Executed   int64
}

type TxRow struct {
	TxIndex    int
	Action     int
	From       string
	FromAsset  string
	FromAmount int64
	ToAsset    string
	ToAmount   int64
	Outputs    string
}

func tickerCols() []string {
	var out []string
	for t := fat2.PTicker(1); t < fat2.PTickerMax; t++ {
		out = append(out, t.String())
	}
	return out
}

func ReadLedger(dbfile string) (*LedgerView, error) {
	db, err := sql.Open("sqlite3", "file:"+dbfile+"?mode=ro&_busy_timeout=10000")
	if err != nil {
		return nil, err
	}
	defer db.Close()
	v := &LedgerView{Balances: map[string]map[string]uint64{}, Rates: map[uint32]map[string]uint64{}, Batches: map[string][]BatchRow{}, Txs: map[string][]TxRow{}, Bank: map[uint32][3]int64{}}
	tick := tickerCols()
	cols := make([]string, len(tick))
	for i, t := range tick {
		cols[i] = strings.ToLower(t) + "_balance"
	}
	rows, err := db.Query("SELECT address," + strings.Join(cols, ",") + " FROM pn_addresses")
	if err != nil {
		return nil, err
	}
	for rows.Next() {
		var addr []byte
		raw := make([]interface{}, len(tick))
		ptrs := []interface{}{&addr}
		for i := range raw {
			ptrs = append(ptrs, &raw[i])
		}
		if err := rows.Scan(ptrs...); err != nil {
			rows.Close()
			return nil, err
		}
		m := map[string]uint64{}
		for i, t := range tick {
			switch x := raw[i].(type) {
			case int64:
				if x > 0 {
					m[t] = uint64(x)
				} else if x < 0 {
					m[t] = ^uint64(0) // a negative balance: never equal to any reference value
					v.Corrupt = append(v.Corrupt, fmt.Sprintf("%x %s = %d", addr, t, x))
				}
			case nil:
			default:
				// SQLite turned the integer into a REAL (overflow past 2^63) or something else that is not an integer
				m[t] = ^uint64(0)
				v.Corrupt = append(v.Corrupt, fmt.Sprintf("%x %s = %v (%T)", addr, t, x, x))
			}
		}
		v.Balances[hex.EncodeToString(addr)] = m
	}
	rows.Close()
	rows, err = db.Query("SELECT height, token, value FROM pn_rate")
	if err != nil {
		return nil, err
	}
	for rows.Next() {
		var h uint32
		var tok string
		var val uint64
		if err := rows.Scan(&h, &tok, &val); err != nil {
			rows.Close()
			return nil, err
		}
		if v.Rates[h] == nil {
			v.Rates[h] = map[string]uint64{}
		}
		v.Rates[h][tok] = val
	}
	rows.Close()
	rows, err = db.Query("SELECT entry_hash, height, blockorder, timestamp, executed FROM pn_history_txbatch ORDER BY history_id")
	if err != nil {
		return nil, err
	}
	for rows.Next() {
		var eh []byte
		var b BatchRow
		if err := rows.Scan(&eh, &b.Height, &b.BlockOrder, &b.Timestamp, &b.Executed); err != nil {
			rows.Close()
			return nil, err
		}
		k := hex.EncodeToString(eh)
		v.Batches[k] = append(v.Batches[k], b)
	}
	rows.Close()
	rows, err = db.Query("SELECT entry_hash, tx_index, action_type, from_address, from_asset, from_amount, to_asset, to_amount, outputs FROM pn_history_transaction ORDER BY entry_hash, tx_index")
	if err != nil {
		return nil, err
	}
	for rows.Next() {
		var eh, from, outs []byte
		var t TxRow
		if err := rows.Scan(&eh, &t.TxIndex, &t.Action, &from, &t.FromAsset, &t.FromAmount, &t.ToAsset, &t.ToAmount, &outs); err != nil {
			rows.Close()
			return nil, err
		}
		t.From = hex.EncodeToString(from)
		t.Outputs = string(outs)
		k := hex.EncodeToString(eh)
		v.Txs[k] = append(v.Txs[k], t)
	}
	rows.Close()
	rows, err = db.Query("SELECT height, bank_amount, bank_used, total_requested FROM pn_bank")
	if err == nil {
		for rows.Next() {
			var h uint32
			var a, u, q int64
			if err := rows.Scan(&h, &a, &u, &q); err == nil {
				v.Bank[h] = [3]int64{a, u, q}
			}
		}
		rows.Close()
	}
	var data []byte
	if err := db.QueryRow("SELECT value FROM pn_metadata WHERE name='synced'").Scan(&data); err == nil {
		fmt.Sscanf(string(data), `{"Synced":%d}`, &v.Synced)
	}
	return v, nil
}

// Bal returns the balance of an address in an asset.
func (v *LedgerView) Bal(a factom.FAAddress, asset string) uint64 {
	return v.Balances[hex.EncodeToString(a[:])][asset]
}

// RatedHeights returns the heights that have rates, ascending.
func (v *LedgerView) RatedHeights() []uint32 {
	var hs []uint32
	for h := range v.Rates {
		hs = append(hs, h)
	}
	sort.Slice(hs, func(i, j int) bool { return hs[i] < hs[j] })
	return hs
}

// Supply returns the per-asset sum over all addresses.
func (v *LedgerView) Supply() map[string]*big.Int {
	out := map[string]*big.Int{}
	for _, m := range v.Balances {
		for a, b := range m {
			if out[a] == nil {
				out[a] = new(big.Int)
			}
			out[a].Add(out[a], new(big.Int).SetUint64(b))
		}
	}
	return out
}

// ---------------------------------------------------------------- reference arithmetic

// RefConvert is floor(in*src/dst) in exact arithmetic; ok=false when it does not fit int64 or a rate is 0.
func RefConvert(in int64, src, dst uint64) (int64, bool) {
	if in < 0 || src == 0 || dst == 0 {
		return 0, false
	}
	n := new(big.Int).Mul(big.NewInt(in), new(big.Int).SetUint64(src))
	n.Quo(n, new(big.Int).SetUint64(dst))
	if !n.IsInt64() {
		return 0, false
	}
	return n.Int64(), true
}

func minU(a, b uint64) uint64 {
	if a < b {
		return a
	}
	return b
}

func maxU(a, b uint64) uint64 {
	if a > b {
		return a
	}
	return b
}

// AvgWindows returns the admissible averaging windows at rated height H: the
// last n rated heights <= H for every n between the number of rated heights
// inside the height window [H-P+1, H] and P. (The running daemon trims its
// window by count, a restarted one by height: C09 owns that ambiguity.)
func (v *LedgerView) AvgWindows(H uint32, P uint64) [][]uint32 {
	hs := v.RatedHeights()
	var upto []uint32
	for _, h := range hs {
		if h <= H {
			upto = append(upto, h)
		}
	}
	inWindow := 0
	for _, h := range upto {
		if uint64(h)+P > uint64(H) {
			inWindow++
		}
	}
	var out [][]uint32
	for n := inWindow; n <= int(P) && n <= len(upto); n++ {
		out = append(out, upto[len(upto)-n:])
	}
	if len(out) == 0 {
		out = [][]uint32{nil}
	}
	return out
}

// AvgOver returns the average of an asset over the given rated heights, 0 when
// fewer than `required` non-zero rates are present (average unavailable).
func (v *LedgerView) AvgOver(asset string, heights []uint32, required uint64) uint64 {
	if len(heights) == 0 {
		return 0
	}
	var sum, nonzero uint64
	for _, h := range heights {
		r := v.Rates[h][asset]
		sum += r
		if r != 0 {
			nonzero++
		}
	}
	if nonzero < required {
		return 0
	}
	return sum / uint64(len(heights))
}

// LastRatedBefore returns the highest rated height < h (0 if none).
func (v *LedgerView) LastRatedBefore(h uint32) uint32 {
	best := uint32(0)
	for x := range v.Rates {
		if x < h && x > best {
			best = x
		}
	}
	return best
}

// readStatuses returns "entryhash@height" -> executed for every history batch row.
func readStatuses(dbfile string) map[string]int64 {
	out := map[string]int64{}
	db, err := sql.Open("sqlite3", "file:"+dbfile+"?mode=ro&_busy_timeout=10000")
	if err != nil {
		return out
	}
	defer db.Close()
	rows, err := db.Query("SELECT entry_hash, height, executed FROM pn_history_txbatch")
	if err != nil {
		return out
	}
	defer rows.Close()
	for rows.Next() {
		var eh []byte
		var h uint32
		var ex int64
		if rows.Scan(&eh, &h, &ex) == nil {
			out[fmt.Sprintf("%s@%d", hex.EncodeToString(eh), h)] = ex
		}
	}
	return out
}

// SyncedOf reads the committed sync height from the database (0 if none): the
// harness never relies on when the daemon updates its in-memory height.
func SyncedOf(dbfile string) uint32 {
	db, err := sql.Open("sqlite3", "file:"+dbfile+"?mode=ro&_busy_timeout=10000")
	if err != nil {
		return 0
	}
	defer db.Close()
	var data []byte
	var v uint32
	if err := db.QueryRow("SELECT value FROM pn_metadata WHERE name='synced'").Scan(&data); err == nil {
		fmt.Sscanf(string(data), `{"Synced":%d}`, &v)
	}
	return v
}

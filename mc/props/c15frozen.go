package props

// The property speaks of "the fixed address list in the fixed percentages" and of "exactly the specified amounts": the
// lists below are the harness' own copy (taken from the pinned tree), so that the oracle does not consult the tables of
// the code under test. c15Frozen reports where the code's tables differ from them.

import (
	"fmt"

	"github.com/pegnet/pegnetd/node"
)

type c15Dev struct {
	addr string
	pct  float64
}

var c15DevList = []c15Dev{
	{"FA2i9WZqJnaKbJxDY2AZdVgewE28uCcSwoFt8LJCMtGCC7tpCa2n", 10},
	{"FA37cGXKWMtf2MmHy3n1rMCYeLVuR5MpDaP4VXVeFavjJCJLYYez", 19},
	{"FA2wDRieaBrWeZHVuXXWUHY6t9nKCVCCKAMS5xknLUExuVAq3ziS", 9},
	{"FA3LDEA5fcskV6ZoFpKE84qPcjd7GYjEnswGHMZXL1V9d14wmgh3", 9},
	{"FA381EygeEXjZzB6hNvxbE4oSUzHZMfvGByMZoW5UrG1gHEKJcNK", 8},
	{"FA2DxkaTx1k2oGfbTqvwVMScSHHac7JFRiBjRngjRnqQpeBxsLhA", 8},
	{"FA2Ersb227gn7eWJ2HPsHZ5QqxfMBZhSjwixQ44dAS17CtRXSDRU", 8},
	{"FA2eFEVUzTQZxNp3LYYgjPaaHUfGmuvShhtBdGB2BBWMeByPCmJy", 8},
	{"FA2T72oxBxXvnujNdsVUshqFM2qV1W4nJy33nkrpxbYQV8rFbUPP", 5},
	{"FA2cEaq1GdGfFjhymiTEzW24DocZFZHNBqe9qkT18YPaL5ZzsgRi", 5},
	{"FA2YhZBZbc4V858ao7dJuAqRC4iwA3MrbZs7BHUPK7Mq19yYdMwZ", 3},
	{"FA3PYuvrsDvkhnekokVNrgLn7JiL5pChSBTtR9gZB1mVGFVB7JRD", 3},
	{"FA2Wy7AzeoBuaXYnGu67xa5zdNkmqTbPryUgpy7qVPvj46GRZkep", 2},
	{"FA2a2nXgkBg7pL5wrgm99rLZDGFs2T8jfTgMuia6ep8ZMkVtPe8E", 3},
}

// whole tokens minted at the 2.0.4 activation
var c15MintList = map[string]uint64{
	"PEG": 334509613, "pUSD": 3184409, "pKRW": 118, "pXAU": 1, "pXAG": 599, "pXBT": 2, "pETH": 5476, "pLTC": 2004, "pRVN": 13124813,
	"pXBC": 243, "pBNB": 3461, "pXLM": 45892, "pADA": 1414096, "pXMR": 682, "pDASH": 6001, "pZEC": 2696, "pEOS": 2059, "pLINK": 9110,
	"pATOM": 101, "pNEO": 2, "pCRO": 164, "pETC": 5, "pVET": 22400000, "pHT": 5, "pDCR": 1049, "pAUD": 9, "pNOK": 59, "pXTZ": 11117,
	"pDOGE": 9870, "pALGO": 457602, "pDGB": 51175,
}

const (
	c15MintAddress    = "FA3j16WPCiqsAFHVZcEoL85Khh5RhPCNe6PWHBKgUxrx8MAnbNoy"
	c15BurnAddress    = "FA2BURNBABYBURNoooooooooooooooooooooooooooooooDGvNXy"
	c15OldBurnAddress = "FA1y5ZGuHSLmf2TqNf6hVMkPiNGyQpQDTFJvDLRkKQaoPo4bmbgu"
)

// c15Frozen lists the differences between the code's tables and the lists above.
func c15Frozen(mintAddressOverridden bool) []string {
	var out []string
	if len(node.DeveloperRewardAddreses) != len(c15DevList) {
		out = append(out, fmt.Sprintf("developer list has %d entries, the fixed list %d", len(node.DeveloperRewardAddreses), len(c15DevList)))
	}
	for i, d := range node.DeveloperRewardAddreses {
		if i < len(c15DevList) && (d.DevAddress != c15DevList[i].addr || d.DevRewardPct != c15DevList[i].pct) {
			out = append(out, fmt.Sprintf("developer entry %d is (%s, %v%%), the fixed list says (%s, %v%%)", i, d.DevAddress, d.DevRewardPct, c15DevList[i].addr, c15DevList[i].pct))
		}
	}
	seen := map[string]bool{}
	for _, m := range node.MintTotalSupplyMap {
		t := m.Ticker.String()
		seen[t] = true
		if want, ok := c15MintList[t]; !ok || want != m.Amount {
			out = append(out, fmt.Sprintf("mint table: %s %d, the fixed list says %d", t, m.Amount, want))
		}
	}
	for t := range c15MintList {
		if !seen[t] {
			out = append(out, "mint table lacks "+t)
		}
	}
	if !mintAddressOverridden && node.GlobalMintAddress != c15MintAddress {
		out = append(out, "mint address is "+node.GlobalMintAddress)
	}
	if node.GlobalBurnAddress != c15BurnAddress {
		out = append(out, "burn address is "+node.GlobalBurnAddress)
	}
	if node.GlobalOldBurnAddress != c15OldBurnAddress {
		out = append(out, "old burn address is "+node.GlobalOldBurnAddress)
	}
	return out
}

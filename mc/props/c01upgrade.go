package props

import (
	"database/sql"
	"fmt"
	"os"
	"strings"

	"github.com/pegnet/pegnetd/fat/fat2"

	"pegverif/canon"
	"pegverif/core"
	"pegverif/drive"
	"pegverif/fake"
	"pegverif/kit"
)

// Upgrade history (part of C01: "the result depends only on the chain, never on the process that computed it"):
// the same chain replayed (a) on a database the running build created and (b) on databases that an older build
// created with the address table of its time (the 30 original assets; those plus the 12 added with V4) and that
// this build upgrades in place at start-up. Stakers hold assets of every generation across two snapshot heights.
func c01UpgradeHistory(c *core.Ctx, r *core.Result) {
	era := drive.EraStage(drive.StV20Dev)
	era.Name = "v20dev-upgrade-history"
	era.Apply()
	b := drive.NewBuilder(era)
	FundStd(b)
	A := AddrA
	g := drive.BlockSpec{Rates: R1(), OPRPayTo: kit.AddrStr(KM)}
	late := []string{"pDCR", "pAUD", "pXTZ", "pHBAR", "pHT", "pALGO", "pDGB", "pNGN"}
	var txs []kit.Tx
	for i, a := range late {
		txs = append(txs, kit.Conversion(A, "PEG", uint64(100+10*i)*1e8, a))
	}
	s := g
	s.TX = []fake.Entry{b.Tx(KA, txs...)}
	b.Add(s)
	b.Add(g)
	// spread them over three more stakers
	s = g
	var moves []kit.Tx
	for i, a := range late {
		moves = append(moves, kit.Transfer(A, a, 1e8+uint64(i), kit.Addr(810+i%3)))
	}
	s.TX = []fake.Entry{b.Tx(KA, moves...)}
	b.Add(s)
	for b.Next() < 431 {
		b.AddEmpty(1)
	}
	b.Add(g)
	b.Add(g) // 432
	for b.Next() < 575 {
		b.AddEmpty(1)
	}
	b.Add(g)
	b.Add(g) // 576: payouts from the two snapshots
	b.Add(g)

	type variant struct {
		name string
		last fat2.PTicker // last balance column of the pre-existing table; 0 = fresh database
	}
	vars := []variant{{"fresh", 0}, {"created-with-30-assets", fat2.PTickerDCR}, {"created-with-42-assets", fat2.PTickerXTZ}}
	var ref canon.Dump
	for _, v := range vars {
		key := "upgrade-history/" + v.name
		if v.last != 0 && !c.Want(key) && c.Only != "" {
			continue // (the fresh database is always replayed: it is the reference)
		}
		r.Eval()
		dir := drive.Scratch("c01up")
		if v.last != 0 {
			if err := c01OldAddressTable(drive.DBFileOf(dir+"/db"), v.last); err != nil {
				panic("harness: " + err.Error())
			}
		}
		d, err := drive.Open(dir+"/db", fake.NewNode(b.Chain), nil, false)
		if err != nil {
			r.Violate(core.Violation{Key: key, Signature: "C01:upgrade-history:node-refuses-an-older-database:" + errClass(err.Error()), Desc: "the node does not start on a database created by an older build: " + err.Error()})
			os.RemoveAll(dir)
			continue
		}
		out := d.SyncTo(b.Chain.Tip(), drive.SyncOpts{})
		d.Close()
		if !out.Reached {
			r.Count("inconclusive-"+outcomeClass(out), 1)
			os.RemoveAll(dir)
			continue
		}
		dump, err := canon.File(drive.DBFileOf(dir+"/db"), canon.Ledger)
		os.RemoveAll(dir)
		if err != nil {
			panic("harness: " + err.Error())
		}
		r.NonTrivial(key)
		if v.last == 0 {
			ref = dump
			// self-check: the stakers really hold late assets and were paid
			paid := 0
			for _, row := range dump["pn_addresses"] {
				if strings.Contains(row, "pht_balance=") || strings.Contains(row, "pngn_balance=") {
					paid++
				}
			}
			if paid == 0 {
				panic("harness: C01 upgrade-history: nobody holds the late assets")
			}
			continue
		}
		if ref != nil && !canon.Equal(ref, dump) {
			r.Violate(core.Violation{Key: key, Signature: "C01:ledger-depends-on-the-upgrade-history-of-the-database:" + strings.Join(canon.TablesDiffering(ref, dump), "+"),
				Desc:   fmt.Sprintf("the same chain gives a different ledger on a database %s and upgraded in place than on a freshly created one", v.name),
				Detail: joinDiff(ref, dump)})
		}
	}
}

// c01OldAddressTable creates a database file holding only the address table as a build knew it whose last asset was `last`.
func c01OldAddressTable(file string, last fat2.PTicker) error {
	os.MkdirAll(file[:strings.LastIndex(file, "/")], 0777)
	db, err := sql.Open("sqlite3", file)
	if err != nil {
		return err
	}
	defer db.Close()
	cols := []string{`"id" INTEGER PRIMARY KEY`, `"address" BLOB NOT NULL UNIQUE`}
	for t := fat2.PTicker(1); t <= last; t++ {
		c := strings.ToLower(t.String()) + "_balance"
		cols = append(cols, fmt.Sprintf(`"%s" INTEGER NOT NULL DEFAULT 0 CONSTRAINT "insufficient balance" CHECK ("%s" >= 0)`, c, c))
	}
	_, err = db.Exec(`CREATE TABLE "pn_addresses" (` + strings.Join(cols, ", ") + `)`)
	return err
}

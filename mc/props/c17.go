package props

import (
	"pegverif/sqlw"
	"os"
	sqlite3 "github.com/mattn/go-sqlite3"
	"context"
	"database/sql"
	"encoding/hex"
	"encoding/json"
	"fmt"
	"sort"
	"strings"

	jrpc "github.com/AdamSLevy/jsonrpc2/v13"
	"github.com/Factom-Asset-Tokens/factom"
	"github.com/pegnet/pegnetd/node"
	"github.com/pegnet/pegnetd/srv"

	"pegverif/core"
	"pegverif/drive"
	"pegverif/fake"
	"pegverif/kit"
)

// C17 History and status tell the truth about the ledger.
func init() {
	core.Register(&core.Prop{
		ID: "C17", Level: "exploration",
		Rule: "chains: the two coverage chains, a paging chain (blocks with 25 OPR + 25 SPR coinbases and 12-transaction batches, an address with 130 actions, 60 stakers paid at a snapshot), a zeroing chain whose mock transaction ids coincide with a staking batch, and 3-block chains for edge-semantics batches; after syncing, everything is read through the REAL API handlers (get-transaction-status, get-transactions by entryhash / address / height with every page, ascending and descending, get-pegnet-balances). Oracles: (i) an entry reports status 0 only if no graded block followed its submission; statuses > 0 / < 0 are tied to effects by replay: (ii) replaying every action returned by the API with executed > 0 (transfers, conversions with recorded amounts, PEG yields and refunds, coinbases incl. negative zeroing rows, burns) plus the scheduled adjustments the property exempts (2.0.2 zeroing, mint, mint burn) and destroyed burn-address outputs reproduces every balance of every address as returned by get-pegnet-balances; (iii) following nextoffset from 0 returns each recorded action exactly once for every entry hash, address and height, in both orders, and count equals the number returned. An evaluation = one API key (hash / address / height / status) walked; non-trivial = key with at least one action",
		Assumptions: []string{"the API method table is reached through a build-tag-guarded exporter injected with go build -overlay", "recorded actions = rows of the history tables (what the pages are compared against)"},
		Run:         runC17,
	})
}

type apiCaller struct {
	m jrpc.MethodMap
}

func newAPI(d *drive.Daemon) *apiCaller {
	s := srv.NewAPIServer(d.Node.Config, d.Node)
	return &apiCaller{m: s.VerifMethods()}
}

// call returns the JSON of the result, or an error if the handler returned one.
func (a *apiCaller) call(method string, params interface{}) (out json.RawMessage, err error) {
	// a handler that panics is behaviour of the code under test, not of the harness
	defer func() {
		if p := recover(); p != nil {
			out, err = nil, fmt.Errorf("handler %s panicked: %v", method, p)
		}
	}()
	var raw json.RawMessage
	if params != nil {
		b, _ := json.Marshal(params)
		raw = b
	}
	res := a.m[method](context.Background(), raw)
	if e, ok := res.(error); ok {
		return nil, e
	}
	if e, ok := res.(jrpc.Error); ok {
		return nil, e
	}
	b, err := json.Marshal(res)
	return b, err
}

type apiAction struct {
	Hash        string `json:"hash"`
	TxID        string `json:"txid"`
	Height      int64  `json:"height"`
	Executed    int64  `json:"executed"`
	TxIndex     int    `json:"txindex"`
	TxAction    int    `json:"txaction"`
	FromAddress string `json:"fromaddress"`
	FromAsset   string `json:"fromasset"`
	FromAmount  int64  `json:"fromamount"`
	ToAsset     string `json:"toasset"`
	ToAmount    int64  `json:"toamount"`
	Outputs     []struct {
		Address string `json:"address"`
		Amount  int64  `json:"amount"`
	} `json:"outputs"`
}

type apiPage struct {
	Actions    []apiAction `json:"actions"`
	Count      int         `json:"count"`
	NextOffset int         `json:"nextoffset"`
}

// walk follows nextoffset from 0.
func (a *apiCaller) walk(base map[string]interface{}, desc bool) ([]apiAction, []int, error) {
	var all []apiAction
	var counts []int
	off := 0
	for guard := 0; guard < 1000; guard++ {
		p := map[string]interface{}{}
		for k, v := range base {
			p[k] = v
		}
		if off > 0 {
			p["offset"] = off
		}
		if desc {
			p["desc"] = true
		}
		raw, err := a.call("get-transactions", p)
		if err != nil {
			if len(all) == 0 {
				return nil, nil, err
			}
			return all, counts, fmt.Errorf("page at offset %d: %v", off, err)
		}
		var pg apiPage
		if err := json.Unmarshal(raw, &pg); err != nil {
			return all, counts, err
		}
		all = append(all, pg.Actions...)
		counts = append(counts, pg.Count)
		if pg.NextOffset == 0 {
			return all, counts, nil
		}
		off = pg.NextOffset
	}
	return all, counts, fmt.Errorf("paging does not terminate")
}

type c17Chain struct {
	name  string
	era   drive.Era
	build func(b *drive.Builder)
	// failShard k>0: the chain is run once per history-writing call site (those with index%4 == k-1), with the first
	// statement of that site failing once; the daemon retries (or is restarted) and the same oracle must hold at the tip
	failShard int
}

func c17Chains() []c17Chain {
	l, x := CoverageLegacy(), Coverage2x()
	out := []c17Chain{{name: "coverage-legacy", era: l.Era, build: l.Build}, {name: "coverage-2x", era: x.Era, build: x.Build}}
	// paging chain
	pe := drive.EraStage(drive.StV202)
	pe.Name = "paging"
	out = append(out, c17Chain{name: "paging", era: pe, build: func(b *drive.Builder) {
		A := AddrA
		FundStd(b)
		b.Add(drive.BlockSpec{Rates: R1(), OPRPayTo: A.String(), TX: []fake.Entry{b.Tx(KA, kit.Conversion(A, "PEG", 20000e8, "pUSD"))}})
		b.Add(drive.BlockSpec{Rates: R1(), OPRPayTo: A.String()})
		// 60 stakers
		var outs []kit.Out
		for i := 0; i < 60; i++ {
			outs = append(outs, kit.Out{Addr: kit.Addr(800 + i), Amount: uint64(10+i) * 1e8})
		}
		var tot uint64
		for _, o := range outs {
			tot += o.Amount
		}
		b.Add(drive.BlockSpec{Rates: R1(), OPRPayTo: A.String(), TX: []fake.Entry{b.Tx(KA, kit.Tx{From: A, Asset: "pUSD", Amount: tot, To: outs})}})
		// blocks with 25 OPR + 25 SPR coinbases and a 12-transaction batch; A collects > 120 actions
		for i := 0; i < 5; i++ {
			var txs []kit.Tx
			for j := 0; j < 12; j++ {
				txs = append(txs, kit.Transfer(A, "pUSD", uint64(1+j), AddrB))
			}
			b.Add(drive.BlockSpec{Rates: R1(), OPRPayTo: A.String(), SPR: sprSet(pe, b.Next(), R1(), A[:], KA, 25), TX: []fake.Entry{b.Tx(KA, txs...), b.Tx(KA, kit.Conversion(A, "pUSD", uint64(1e8+i), "pEUR"))}})
		}
		for b.Next() < 431 {
			b.AddEmpty(1)
		}
		b.Add(drive.BlockSpec{Rates: R1(), OPRPayTo: A.String()})
		b.Add(drive.BlockSpec{Rates: R1(), OPRPayTo: A.String()}) // 432
		for b.Next() < 575 {
			b.AddEmpty(1)
		}
		b.Add(drive.BlockSpec{Rates: R1(), OPRPayTo: A.String()})
		b.Add(drive.BlockSpec{Rates: R1(), OPRPayTo: A.String()}) // 576: 60+ stakers paid, 14 developer rewards
		b.Add(drive.BlockSpec{Rates: R1(), OPRPayTo: A.String()})
	}})
	// zeroing whose mock txids coincide with the staking batch of 576 (offset 2, 5 stakers)
	ze := drive.EraStage(drive.StV20)
	ze.Name = "zeroing-after-snapshot"
	ze.DevRewards, ze.SprSig = 578, 578
	out = append(out, c17Chain{name: "zeroing-txid-coincidence", era: ze, build: func(b *drive.Builder) {
		A := AddrA
		FundStd(b)
		b.Add(drive.BlockSpec{Rates: R1(), OPRPayTo: A.String(), TX: []fake.Entry{b.Tx(KA, kit.Conversion(A, "PEG", 5000e8, "pUSD"))}})
		b.Add(drive.BlockSpec{Rates: R1(), OPRPayTo: OldBurn().String()})
		var txs []kit.Tx
		for i := 0; i < 5; i++ {
			txs = append(txs, kit.Transfer(A, "pUSD", uint64(10+i)*1e8, kit.Addr(800+i)))
		}
		b.Add(drive.BlockSpec{Rates: R1(), OPRPayTo: A.String(), TX: []fake.Entry{b.Tx(KA, txs...)}})
		for b.Next() < 431 {
			b.AddEmpty(1)
		}
		b.Add(drive.BlockSpec{Rates: R1(), OPRPayTo: A.String()})
		b.Add(drive.BlockSpec{Rates: R1(), OPRPayTo: A.String()})
		for b.Next() < 575 {
			b.AddEmpty(1)
		}
		for b.Next() < 581 {
			b.Add(drive.BlockSpec{Rates: R1(), OPRPayTo: A.String()})
		}
	}})
	for _, st := range []int{drive.StBank, drive.StV202, drive.StPIP10} {
		era := drive.EraStage(st)
		for _, sb := range c08SemanticBatches(era) {
			sb := sb
			out = append(out, c17Chain{name: "batch/" + era.Name + "/" + sb.name, era: era, build: func(b *drive.Builder) {
				FundStd(b)
				b.Add(drive.BlockSpec{Rates: R1(), OPRPayTo: kit.AddrStr(KM), TX: []fake.Entry{sb.entry(b)}})
				b.Add(drive.BlockSpec{Rates: R2(), OPRPayTo: kit.AddrStr(KM)})
				b.Add(drive.BlockSpec{Rates: R1(), OPRPayTo: kit.AddrStr(KM)})
			}})
		}
	}
	// pending forever: conversion from an asset whose average is unavailable
	pp := drive.EraStage(drive.StPIP10)
	pp.Name = "pip10-unconvertible"
	out = append(out, c17Chain{name: "unconvertible-held-conversion", era: pp, build: func(b *drive.Builder) {
		FundStd(b)
		A := AddrA
		// pEUR zeroed by the band for 4 blocks: average unavailable, then spot returns
		for i := 0; i < 4; i++ {
			b.Add(drive.BlockSpec{Rates: R1(), OPRPayTo: kit.AddrStr(KM), SPR: sprSet(pp, b.Next(), R1().With("EUR", 120e7), A[:], KA, 25)})
		}
		b.Add(drive.BlockSpec{Rates: R1(), OPRPayTo: kit.AddrStr(KM), TX: []fake.Entry{b.Tx(KA, kit.Conversion(A, "pUSD", 5e8, "pEUR"))}})
		b.Add(drive.BlockSpec{Rates: R1(), OPRPayTo: kit.AddrStr(KM)}) // spot exists, average does not
		b.Add(drive.BlockSpec{Rates: R1(), OPRPayTo: kit.AddrStr(KM)})
		b.Add(drive.BlockSpec{Rates: R1(), OPRPayTo: kit.AddrStr(KM)})
	}})
	// the same chains with one history write failing once
	for _, base := range out[:3] {
		for k := 1; k <= 4; k++ {
			v := base
			v.name = fmt.Sprintf("%s!history-write-fails/%dof4", base.name, k)
			v.failShard = k
			out = append(out, v)
		}
	}
	return out
}

func runC17(c *core.Ctx, r *core.Result) {
	for i, ch := range c17Chains() {
		if !c.Mine(i) && c.Only == "" {
			continue
		}
		if c.Only != "" && !strings.HasPrefix(c.Only, ch.name) {
			continue
		}
		if c.Expired() {
			r.Capped("deadline before " + ch.name)
			return
		}
		if ch.failShard == 0 {
			c17Run(c, r, ch, "")
			continue
		}
		sites := c17HistorySites(ch)
		for i, site := range sites {
			if i%4 != ch.failShard-1 {
				continue
			}
			if c.Expired() {
				r.Capped("deadline inside " + ch.name)
				return
			}
			c17Run(c, r, ch, site)
		}
	}
}

// c17HistorySites lists, in order of first use, the call sites that write the history tables while the chain is applied.
func c17HistorySites(ch c17Chain) []string {
	ch.era.Apply()
	b := drive.NewBuilder(ch.era)
	ch.build(b)
	dir := drive.Scratch("c17p")
	defer os.RemoveAll(dir)
	var sites []string
	seen := map[string]bool{}
	hooks := &sqlw.Hooks{WantCaller: true, Before: func(op *sqlw.Op) error {
		if c17IsHistoryWrite(op) {
			if s := siteOf(op.Stack) + " | " + stmtClass(op.SQL); !seen[s] {
				seen[s] = true
				sites = append(sites, s)
			}
		}
		return nil
	}}
	d, err := drive.Open(dir+"/db", fake.NewNode(b.Chain), hooks, false)
	if err != nil {
		panic("harness: " + err.Error())
	}
	d.SyncTo(b.Chain.Tip(), drive.SyncOpts{})
	d.Close()
	return sites
}

func c17IsHistoryWrite(op *sqlw.Op) bool {
	if op.Kind == "prepare" || op.Kind == "begin" || op.Kind == "commit" || op.Kind == "rollback" {
		return false
	}
	q := strings.ToUpper(op.SQL)
	return strings.Contains(q, "PN_HISTORY") && (strings.Contains(q, "INSERT") || strings.Contains(q, "UPDATE"))
}

func c17Run(c *core.Ctx, r *core.Result, ch c17Chain, failSite string) {
	era := ch.era
	era.Apply()
	b := drive.NewBuilder(era)
	ch.build(b)
	dir := drive.Scratch("c17")
	run := &Run{B: b, Dir: dir, DBPath: dir + "/db"}
	defer run.Close()
	var out drive.Outcome
	if failSite == "" {
		out = run.Sync()
	} else {
		fired := false
		hooks := &sqlw.Hooks{WantCaller: true, Before: func(op *sqlw.Op) error {
			if !fired && c17IsHistoryWrite(op) && siteOf(op.Stack)+" | "+stmtClass(op.SQL) == failSite {
				fired = true
				return sqlite3.Error{Code: sqlite3.ErrBusy}
			}
			return nil
		}}
		for attempt := 0; attempt < 3; attempt++ {
			d := run.Open(hooks)
			out = d.SyncTo(b.Chain.Tip(), drive.SyncOpts{FaultPending: func() bool { return !fired }})
			if !out.Died {
				break
			}
			// the daemon chose to exit: restart on a copy of the files (the dead incarnation's connections hold locks in this process)
			run.D.Close()
			run.D = nil
			np := fmt.Sprintf("%s/r%d/db", dir, attempt)
			if err := drive.CopyDB(run.DBPath, np); err != nil {
				panic("harness: " + err.Error())
			}
			run.DBPath = np
		}
		if fired {
			r.Count("history-write-failures-injected", 1)
		}
		ch.name += " [" + failSite + "]"
	}
	if !out.Reached {
		r.Count("inconclusive-"+outcomeClass(out), 1)
		return
	}
	d := run.D
	api := newAPI(d)
	viol := func(key, sig, desc string, detail ...string) {
		r.Violate(core.Violation{Key: ch.name + "/" + key, Signature: "C17:" + sig, Desc: desc, Detail: detail})
	}
	cls := ch.name
	if strings.HasPrefix(cls, "batch/") {
		cls = strings.TrimPrefix(cls, "batch/")
	}

	// ---- ground truth: recorded rows
	db, err := sql.Open("sqlite3", "file:"+d.DBFile()+"?mode=ro")
	if err != nil {
		panic(err)
	}
	defer db.Close()
	type rec struct {
		hash  string
		idx   int
		batch []int64 // heights of the batch rows of this hash
	}
	batchHeights := map[string][]int64{}
	rows, _ := db.Query("SELECT entry_hash, height FROM pn_history_txbatch ORDER BY history_id")
	for rows.Next() {
		var eh []byte
		var h int64
		rows.Scan(&eh, &h)
		batchHeights[hex.EncodeToString(eh)] = append(batchHeights[hex.EncodeToString(eh)], h)
	}
	rows.Close()
	byHash := map[string][]string{}   // hash -> txids
	byHeight := map[int64][]string{}  // height -> txid@height
	byAddr := map[string][]string{}   // address hex -> txids
	rows, _ = db.Query("SELECT entry_hash, tx_index FROM pn_history_transaction")
	for rows.Next() {
		var eh []byte
		var idx int
		rows.Scan(&eh, &idx)
		hx := hex.EncodeToString(eh)
		txid := fmt.Sprintf("%d-%s", idx, hx)
		byHash[hx] = append(byHash[hx], txid)
		seen := map[int64]bool{}
		for _, h := range batchHeights[hx] {
			if !seen[h] {
				byHeight[h] = append(byHeight[h], txid)
				seen[h] = true
			}
		}
	}
	rows.Close()
	rows, _ = db.Query("SELECT entry_hash, tx_index, address FROM pn_history_lookup")
	for rows.Next() {
		var eh, ad []byte
		var idx int
		rows.Scan(&eh, &idx, &ad)
		byAddr[hex.EncodeToString(ad)] = append(byAddr[hex.EncodeToString(ad)], fmt.Sprintf("%d-%s", idx, hex.EncodeToString(eh)))
	}
	rows.Close()
	// the address index itself is under test: an address must also find every recorded action that names it
	// as the input or as an output, whether or not an index row exists
	inAddr := map[string]map[string]bool{}
	for a, ids := range byAddr {
		inAddr[a] = map[string]bool{}
		for _, id := range ids {
			inAddr[a][id] = true
		}
	}
	named := func(a, txid string) {
		if inAddr[a] == nil {
			inAddr[a] = map[string]bool{}
		}
		if !inAddr[a][txid] {
			inAddr[a][txid] = true
			byAddr[a] = append(byAddr[a], txid)
			r.Count("actions-naming-an-address-without-an-index-row", 1)
		}
	}
	rows, _ = db.Query("SELECT entry_hash, tx_index, from_address, outputs FROM pn_history_transaction")
	for rows.Next() {
		var eh, from, outs []byte
		var idx int
		rows.Scan(&eh, &idx, &from, &outs)
		txid := fmt.Sprintf("%d-%s", idx, hex.EncodeToString(eh))
		if len(from) == 32 {
			named(hex.EncodeToString(from), txid)
		}
		var os []struct {
			Address string `json:"address"`
		}
		if len(outs) > 0 && json.Unmarshal(outs, &os) == nil {
			for _, o := range os {
				if fa, err := factom.NewFAAddress(o.Address); err == nil {
					named(hex.EncodeToString(fa[:]), txid)
				}
			}
		}
	}
	rows.Close()

	// ---- (iii) paging
	checkWalk := func(kind, keyName string, base map[string]interface{}, want []string) []apiAction {
		var first []apiAction
		for _, desc := range []bool{false, true} {
			r.Eval()
			if len(want) > 0 {
				r.NonTrivial(ch.name + "|" + kind + "|" + keyName + fmt.Sprint(desc))
			}
			got, counts, err := api.walk(base, desc)
			if err != nil && len(want) > 0 {
				viol(kind+"/"+keyName, "paging-error:"+kind+":"+cls, fmt.Sprintf("get-transactions %v: %v", base, err))
				continue
			}
			var ids []string
			for _, a := range got {
				ids = append(ids, a.TxID)
			}
			w := append([]string{}, want...)
			sort.Strings(w)
			g := append([]string{}, ids...)
			sort.Strings(g)
			if strings.Join(w, ",") != strings.Join(g, ",") {
				// summarise
				cnt := map[string]int{}
				for _, x := range g {
					cnt[x]++
				}
				for _, x := range w {
					cnt[x]--
				}
				var extra, missing int
				for _, v := range cnt {
					if v > 0 {
						extra += v
					} else {
						missing -= v
					}
				}
				viol(kind+"/"+keyName, fmt.Sprintf("actions-not-returned-exactly-once:%s:%s", kind, cls),
					fmt.Sprintf("get-transactions by %s %s (desc=%v): %d actions recorded, %d returned over %d pages (%d returned more than once or not recorded under this key, %d missing)", kind, keyName, desc, len(w), len(g), len(counts), extra, missing))
			}
			for _, cnum := range counts {
				if cnum != len(want) && len(want) > 0 {
					viol(kind+"/"+keyName, fmt.Sprintf("count-differs:%s:%s", kind, cls), fmt.Sprintf("get-transactions by %s %s reports count %d, %d actions are recorded", kind, keyName, cnum, len(want)))
					break
				}
			}
			if !desc {
				first = got
			}
		}
		return first
	}
	var allActions []apiAction
	var hs []string
	for hx := range byHash {
		hs = append(hs, hx)
	}
	sort.Strings(hs)
	for _, hx := range hs {
		acts := checkWalk("entryhash", hx[:12], map[string]interface{}{"entryhash": hx}, byHash[hx])
		// one representative per (hash, txindex) for the replay: take those whose height equals the first batch row
		seen := map[string]bool{}
		for _, a := range acts {
			if !seen[a.TxID] {
				seen[a.TxID] = true
				allActions = append(allActions, a)
			}
		}
	}
	var hts []int64
	for h := range byHeight {
		hts = append(hts, h)
	}
	sort.Slice(hts, func(i, j int) bool { return hts[i] < hts[j] })
	for _, h := range hts {
		checkWalk("height", fmt.Sprint(h), map[string]interface{}{"height": h}, byHeight[h])
	}
	var ads []string
	for a := range byAddr {
		ads = append(ads, a)
	}
	sort.Strings(ads)
	for _, a := range ads {
		var fa factom.FAAddress
		raw, _ := hex.DecodeString(a)
		copy(fa[:], raw)
		checkWalk("address", fa.String()[:12], map[string]interface{}{"address": fa.String()}, byAddr[a])
	}

	// ---- (i) pending only while a later graded block can still execute it
	v, err := ReadLedger(d.DBFile())
	if err != nil {
		panic(err)
	}
	for h := era.Base + 1; h <= b.Chain.Tip(); h++ {
		for _, e := range b.Chain.Block(h).TX {
			eh := fake.EntryHash(drive.IDs.TX, e)
			hx := hex.EncodeToString(eh[:])
			if _, recorded := byHash[hx]; !recorded {
				continue
			}
			r.Eval()
			raw, err := api.call("get-transaction-status", map[string]interface{}{"entryhash": hx})
			if err != nil {
				viol("status/"+hx[:12], "status-error:"+cls, err.Error())
				continue
			}
			var st struct {
				Height   uint32 `json:"height"`
				Executed int64  `json:"executed"`
			}
			json.Unmarshal(raw, &st)
			if st.Executed == 0 {
				later := false
				for _, rh := range v.RatedHeights() {
					if rh > h {
						later = true
					}
				}
				if later {
					viol("status/"+hx[:12], "pending-forever:"+cls, fmt.Sprintf("entry %s… submitted at %d still reports pending (0) although graded blocks followed: it will never be looked at again", hx[:12], h))
				}
			}
		}
	}

	// ---- (ii) replay of the history returned by the API reproduces the balances returned by the API
	bal := map[string]map[string]int64{}
	add := func(addr, asset string, amt int64) {
		if asset == "" || amt == 0 {
			return
		}
		if bal[addr] == nil {
			bal[addr] = map[string]int64{}
		}
		bal[addr][asset] += amt
	}
	faHex := func(s string) string {
		a, err := factom.NewFAAddress(s)
		if err != nil {
			return s
		}
		return hex.EncodeToString(a[:])
	}
	oldBurn, newBurn := hex.EncodeToString(func() []byte { a := OldBurn(); return a[:] }()), hex.EncodeToString(func() []byte { a := GlobalBurn(); return a[:] }())
	for _, a := range allActions {
		if a.Executed <= 0 {
			continue
		}
		from := faHex(a.FromAddress)
		exH := uint32(a.Executed)
		switch a.TxAction {
		case 1: // transfer
			add(from, a.FromAsset, -a.FromAmount)
			for _, o := range a.Outputs {
				to := faHex(o.Address)
				if (to == newBurn && exH >= era.V202) || (to == oldBurn && exH < era.V202) {
					continue // destroyed
				}
				add(to, a.FromAsset, o.Amount)
			}
		case 2: // conversion
			add(from, a.FromAsset, -a.FromAmount)
			add(from, a.ToAsset, a.ToAmount)
			for _, o := range a.Outputs { // PEG request refund
				add(faHex(o.Address), a.FromAsset, o.Amount)
			}
		case 3: // coinbase (incl. negative zeroing rows)
			add(from, a.ToAsset, a.ToAmount)
		case 4: // burn
			add(from, a.ToAsset, a.ToAmount)
		}
	}
	// exempt scheduled adjustments
	mintA, _ := factom.NewFAAddress(node.GlobalMintAddress)
	mintHex := hex.EncodeToString(mintA[:])
	if b.Chain.Tip() >= era.V204 {
		for _, m := range node.MintTotalSupplyMap {
			add(mintHex, m.Ticker.String(), int64(m.Amount*1e8))
		}
	}
	exempt := map[string]bool{}
	if b.Chain.Tip() >= era.V202 {
		exempt[newBurn] = true // zeroed without history rows
	}
	if b.Chain.Tip() >= era.DevRewards {
		exempt[oldBurn] = true // first zeroing: a scheduled one-time adjustment
	}
	if b.Chain.Tip() >= era.V204Burn {
		exempt[mintHex] = true // the mint burn leaves no history rows
	}
	var diffs []string
	addrs := map[string]bool{}
	for a := range bal {
		addrs[a] = true
	}
	for a := range v.Balances {
		addrs[a] = true
	}
	for a := range addrs {
		if exempt[a] {
			continue
		}
		var fa factom.FAAddress
		raw, _ := hex.DecodeString(a)
		copy(fa[:], raw)
		r.Eval()
		res, err := api.call("get-pegnet-balances", map[string]interface{}{"address": fa.String()})
		got := map[string]int64{}
		if err == nil {
			var m map[string]uint64
			json.Unmarshal(res, &m)
			for k, x := range m {
				if x != 0 {
					got[k] = int64(x)
				}
			}
		}
		assets := map[string]bool{}
		for x := range got {
			assets[x] = true
		}
		for x, y := range bal[a] {
			if y != 0 {
				assets[x] = true
			}
		}
		for x := range assets {
			if got[x] != bal[a][x] {
				diffs = append(diffs, fmt.Sprintf("%s %s: API balance %d, replay of the API history %d", fa.String()[:12], x, got[x], bal[a][x]))
			}
		}
	}
	if len(diffs) > 0 {
		sort.Strings(diffs)
		n := len(diffs)
		if n > 6 {
			diffs = append(diffs[:6], fmt.Sprintf("… %d (address, asset) pairs", n))
		}
		viol("replay", "history-replay-does-not-reproduce-balances:"+cls, "replaying the executed history (plus exempt adjustments) does not give the balances the API reports", diffs...)
	}
	if len(r.Samples) < 3 {
		r.Sample(map[string]interface{}{"chain": ch.name, "hashes": len(byHash), "heights": len(byHeight), "addresses": len(byAddr), "actions": len(allActions)})
	}
}

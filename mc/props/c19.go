package props

import (
	"database/sql"
	"fmt"
	"os"
	"strings"

	"github.com/pegnet/pegnetd/node/pegnet"

	"pegverif/canon"
	"pegverif/core"
	"pegverif/drive"
	"pegverif/fake"
)

// C19 Version lock: explicit-state exploration of upgrade/downgrade histories with real commits.
func init() {
	core.Register(&core.Prop{
		ID: "C19", Level: "model_checking",
		Rule: "explicit-state BFS per fork placement: state = database (pn_sync_version rows + sync height) paired with the model list (height -> sync version | legacy); transition = one session: a build with sync version v in {legacy,0,1,2,3} (its fork table = the forks it knows, i.e. those with minimum version <= v) starts on the database with the real node.NewPegnetd and, if accepted, syncs n in {0,1,2} empty blocks with the real DBlockSync (legacy builds leave no version rows and perform no check); oracle at every tracked start-up: refused iff the model says some height >= a fork height was synced with a version below the fork's minimum or by a legacy build, or some height was synced by a newer version than the starting build; states deduplicated by (model, admin tables); non-trivial = start-up on a database with at least one synced block",
		Assumptions: []string{"a build's fork table contains exactly the forks whose minimum version it satisfies", "a legacy (pre-tracking) build leaves no pn_sync_version rows and never refuses"},
		Run:         runC19,
	})
}

type c19Fork struct {
	h   uint32 // absolute height
	min int
}

const c19Legacy = -100

type c19State struct {
	dir   string
	model map[uint32]int // height -> version (c19Legacy for legacy)
	top   uint32
	hist  string
}

func (s *c19State) key() string {
	var sb strings.Builder
	for h := cb + 1; h <= s.top; h++ {
		fmt.Fprintf(&sb, "%d:%d,", h, s.model[h])
	}
	return sb.String()
}

// c19Expect: should a build with version S and fork table `forks` refuse this database?
func c19Expect(s *c19State, S int, forks []c19Fork) (bool, string) {
	for h := cb + 1; h <= s.top; h++ {
		v := s.model[h]
		for _, f := range forks {
			if f.min > S {
				continue // unknown to this build
			}
			if h >= f.h && (v == c19Legacy || v < f.min) {
				return true, fmt.Sprintf("height %d (>= fork %d needing %d) was synced by %s", h, f.h, f.min, c19V(v))
			}
		}
		if v != c19Legacy && v > S {
			return true, fmt.Sprintf("height %d was synced by newer version %d", h, v)
		}
	}
	return false, ""
}

func c19V(v int) string {
	if v == c19Legacy {
		return "legacy"
	}
	return fmt.Sprint(v)
}

func c19Era(v int, forks []c19Fork) drive.Era {
	e := drive.EraStage(drive.StV1) // nothing active: empty blocks only
	e.Name = "c19"
	hf := []pegnet.ForkEvent{{ActivationHeight: 0, MinimumVersion: -1}}
	for _, f := range forks {
		if f.min <= v {
			hf = append(hf, pegnet.ForkEvent{ActivationHeight: f.h, MinimumVersion: f.min})
		}
	}
	e.Hardforks = hf
	return e.WithSyncVersion(v)
}

func runC19(c *core.Ctx, r *core.Result) {
	maxH := uint32(6)
	maxSessions := 3
	if c.Thorough() {
		maxH, maxSessions = 7, 4
	}
	// fork placements: fork A (min 1) at hA, fork B (min 2) at hB, hA <= hB
	type cfg struct{ forks []c19Fork }
	var cfgs []cfg
	for a := uint32(1); a <= maxH; a++ {
		for b := a; b <= maxH; b++ {
			cfgs = append(cfgs, cfg{[]c19Fork{{cb + a, 1}, {cb + b, 2}}})
		}
	}
	if c.Thorough() {
		for a := uint32(1); a <= 5; a += 2 {
			for b := a; b <= 5; b += 2 {
				for d := b; d <= 6; d += 2 {
					cfgs = append(cfgs, cfg{[]c19Fork{{cb + a, 1}, {cb + b, 2}, {cb + d, 3}}})
				}
			}
		}
	}
	for ci, cf := range cfgs {
		if !(c.Mine(ci) || c.Only != "") {
			continue
		}
		var fdesc []string
		for _, f := range cf.forks {
			fdesc = append(fdesc, fmt.Sprintf("%d>=v%d", f.h-cb, f.min))
		}
		cfgName := "forks[" + strings.Join(fdesc, ",") + "]"
		if c.Only != "" && !strings.HasPrefix(c.Only, cfgName+"/") {
			continue
		}
		if c.Expired() {
			r.Capped("deadline before " + cfgName)
			return
		}
		c19BFS(c, r, cfgName, cf.forks, maxH, maxSessions)
	}
}

func c19BFS(c *core.Ctx, r *core.Result, cfgName string, forks []c19Fork, maxH uint32, maxSessions int) {
	root := drive.Scratch("c19")
	defer os.RemoveAll(root)
	chain := fake.NewChain(drive.IDs, cb, drive.T0Min)
	for i := uint32(0); i < maxH+3; i++ {
		chain.Append(&fake.Block{})
	}
	start := &c19State{dir: "", model: map[uint32]int{}, top: cb, hist: ""}
	frontier := []*c19State{start}
	seen := map[string]bool{start.key(): true}
	n := 0
	versions := []int{c19Legacy, 0, 1, 2, 3}
	for depth := 0; depth < maxSessions; depth++ {
		var next []*c19State
		for _, st := range frontier {
			for _, v := range versions {
				for bi := uint32(0); bi <= 5; bi++ {
					// bi 3..5: the same session with 1..2 blocks started with the operator's override from the outset (no regular start-up
					// of this build ever touches the database): only where the model says a regular start-up would be refused
					blocks, direct := bi, false
					if bi >= 3 {
						if maxSessions > 3 && depth >= 2 {
							continue // thorough: forced sessions among the first two sessions only (state count; every refused start-up leaks a handle)
						}
						blocks, direct = bi-2, true
						if blocks > 2 || v == c19Legacy {
							continue
						}
						if want, _ := c19Expect(st, v, forks); !want {
							continue
						}
					}
					if st.top+blocks > cb+maxH {
						continue
					}
					if v == c19Legacy && blocks == 0 {
						continue // a legacy build that syncs nothing leaves no trace
					}
					n++
					hist := fmt.Sprintf("%s(%s,%d)", st.hist, c19V(v), blocks)
					if direct {
						hist += "!forced-directly"
					}
					key := cfgName + "/" + hist
					if c.Only != "" && !strings.HasPrefix(c.Only, key) && !strings.HasPrefix(key, c.Only) {
						continue
					}
					dir := fmt.Sprintf("%s/s%d", root, n)
					if st.dir != "" {
						if err := drive.CopyDB(st.dir+"/db", dir+"/db"); err != nil {
							panic("harness: " + err.Error())
						}
					} else {
						os.MkdirAll(dir, 0777)
					}
					r.Transitions++
					ns := &c19State{dir: dir, model: map[uint32]int{}, top: st.top, hist: hist}
					for h, mv := range st.model {
						ns.model[h] = mv
					}
					era := c19Era(v, forks)
					if v == c19Legacy {
						era = c19Era(3, nil) // any tracked build syncs the blocks; its traces are removed afterwards
					}
					era.Apply()
					drive.DisableHardForkCheck = direct
					d, err := drive.Open(dir+"/db", fake.NewNode(chain), nil, false)
					drive.DisableHardForkCheck = false
					if direct {
						if err != nil {
							os.RemoveAll(dir)
							continue
						}
						r.Count("forced-sessions-without-a-regular-start", 1)
					} else if v != c19Legacy {
						// a real start-up: compare with the model
						r.Eval()
						if st.top > cb {
							r.NonTrivial(cfgName + "|" + st.key() + "|" + fmt.Sprint(v))
						}
						want, why := c19Expect(st, v, forks)
						got := err != nil
						r.Outcome(fmt.Sprintf("refused=%v", got))
						if want != got {
							what := "accepts a database it must refuse: " + why
							cls := "accepted-but-must-refuse"
							if got {
								what = "refuses a database synced entirely with adequate builds: " + err.Error()
								cls = "refused-but-adequate"
							}
							// classify the model-side reason for signatures
							reason := c19Reason(st, v, forks)
							r.Violate(core.Violation{Key: key, Signature: "C19:" + cls + ":" + reason,
								Desc:   fmt.Sprintf("build v%d starting on history %s with %s %s", v, st.hist, cfgName, what),
								Detail: []string{"model (height:version): " + st.key()}})
						}
						if len(r.Samples) < 5 && st.top > cb {
							r.Sample(map[string]interface{}{"forks": cfgName, "history": st.hist, "starting_build": v, "refused": got, "model_says_refuse": want})
						}
						if err != nil {
							if blocks == 0 || !want || (maxSessions > 3 && depth >= 2) {
								os.RemoveAll(dir)
								continue // the session never runs
							}
							// the operator overrides the refusal (--no-hf) and the inadequate build syncs anyway: later start-ups of
							// adequate builds must still refuse what it leaves behind
							drive.DisableHardForkCheck = true
							d, err = drive.Open(dir+"/db", fake.NewNode(chain), nil, false)
							drive.DisableHardForkCheck = false
							if err != nil {
								os.RemoveAll(dir)
								continue
							}
							ns.hist += "!forced"
							r.Count("forced-sessions", 1)
						}
						if want && !strings.HasSuffix(ns.hist, "!forced") {
							// accepted although it must be refused: reported; do not explore further from a state the property excludes
							d.Close()
							os.RemoveAll(dir)
							continue
						}
					} else if err != nil {
						// the helper build (v3, no forks) refused: only possible on a downgrade; a real legacy build would not check.
						// emulate: open without the check
						era2 := c19Era(3, nil)
						era2.Apply()
						pegnet.PegnetdSyncVersion = 1 << 20
						d, err = drive.Open(dir+"/db", fake.NewNode(chain), nil, false)
						if err != nil {
							panic("harness: legacy emulation cannot open: " + err.Error())
						}
					}
					if blocks > 0 {
						out := d.SyncTo(st.top+blocks, drive.SyncOpts{})
						if !out.Reached {
							d.Close()
							r.Count("session-sync-failed:"+errClass(out.LastErr+out.DiedMsg), 1)
							os.RemoveAll(dir)
							continue
						}
					}
					d.Close()
					for h := st.top + 1; h <= st.top+blocks; h++ {
						ns.model[h] = v
					}
					ns.top = st.top + blocks
					if v == c19Legacy {
						// what a build without version tracking leaves: no rows for its heights
						db, err := sql.Open("sqlite3", drive.DBFileOf(dir+"/db"))
						if err != nil {
							panic(err)
						}
						if _, err := db.Exec("DELETE FROM pn_sync_version WHERE height > ? AND height <= ?", st.top, ns.top); err != nil {
							panic("harness: " + err.Error())
						}
						db.Close()
					}
					adm, _ := canon.File(drive.DBFileOf(dir+"/db"), canon.Admin)
					k := ns.key() + "|" + adm.Hash()
					if seen[k] {
						os.RemoveAll(dir)
						continue
					}
					seen[k] = true
					r.AddState(cfgName + "|" + k)
					next = append(next, ns)
				}
			}
		}
		for _, st := range frontier {
			if st.dir != "" {
				os.RemoveAll(st.dir)
			}
		}
		frontier = next
	}
	// final start-ups from the last frontier: every build
	for _, st := range frontier {
		for _, v := range []int{0, 1, 2, 3} {
			key := fmt.Sprintf("%s/%s(%d,start)", cfgName, st.hist, v)
			if !c.Want(key) && c.Only != "" {
				continue
			}
			n++
			dir := fmt.Sprintf("%s/f%d", root, n)
			if err := drive.CopyDB(st.dir+"/db", dir+"/db"); err != nil {
				panic("harness: " + err.Error())
			}
			c19Era(v, forks).Apply()
			d, err := drive.Open(dir+"/db", fake.NewNode(chain), nil, false)
			if err == nil {
				d.Close()
			}
			r.Eval()
			r.Transitions++
			r.NonTrivial(cfgName + "|" + st.key() + "|" + fmt.Sprint(v))
			want, why := c19Expect(st, v, forks)
			got := err != nil
			r.Outcome(fmt.Sprintf("refused=%v", got))
			if want != got {
				cls, what := "accepted-but-must-refuse", "accepts a database it must refuse: "+why
				if got {
					cls, what = "refused-but-adequate", "refuses a database synced entirely with adequate builds: "+err.Error()
				}
				r.Violate(core.Violation{Key: key, Signature: "C19:" + cls + ":" + c19Reason(st, v, forks),
					Desc: fmt.Sprintf("build v%d starting on history %s with %s %s", v, st.hist, cfgName, what), Detail: []string{"model: " + st.key()}})
			}
			os.RemoveAll(dir)
		}
		os.RemoveAll(st.dir)
	}
	r.Traces++
}

// c19Reason classifies why the model wants a refusal (or "adequate").
func c19Reason(s *c19State, S int, forks []c19Fork) string {
	legacyAtFork, legacyAboveFork, lowVersion, newer := false, false, false, false
	legacyAfterTracked := false
	trackedSeen := false
	for h := cb + 1; h <= s.top; h++ {
		v := s.model[h]
		if v != c19Legacy {
			trackedSeen = true
		}
		for _, f := range forks {
			if f.min > S {
				continue
			}
			if h >= f.h && v == c19Legacy {
				if trackedSeen {
					legacyAfterTracked = true
				} else if h == f.h && h == s.top {
					legacyAtFork = true
				} else {
					legacyAboveFork = true
				}
			}
			if h >= f.h && v != c19Legacy && v < f.min {
				lowVersion = true
			}
		}
		if v != c19Legacy && v > S {
			newer = true
		}
	}
	var out []string
	if lowVersion {
		out = append(out, "low-version-at-or-above-fork")
	}
	if newer {
		out = append(out, "newer-version-in-db")
	}
	if legacyAboveFork {
		out = append(out, "legacy-height-above-or-at-fork")
	}
	if legacyAfterTracked {
		out = append(out, "legacy-session-after-a-tracked-session")
	}
	if legacyAtFork {
		out = append(out, "legacy-synced-exactly-to-fork-height")
	}
	if len(out) == 0 {
		return "adequate"
	}
	return strings.Join(out, "+")
}

package props

import (
	"encoding/json"
	"fmt"
	"strings"

	"github.com/Factom-Asset-Tokens/factom"

	"pegverif/canon"
	"pegverif/core"
	"pegverif/drive"
	"pegverif/fake"
	"pegverif/kit"
)

// C05 Spend authorization.
func init() {
	core.Register(&core.Prop{
		ID: "C05", Level: "exploration",
		Rule: "for each (key type RCD-1 | RCD-e) x (immediate transfer | held conversion) x era (RCD-e not yet active / active; 2.0.5 and bank-pooled ledgers): one valid signed entry E by a funded address and EVERY mutant of it: each single-bit flip of every byte of the content and of every external id, each external id removed / duplicated / emptied, RCD and signature swapped, extra trailing ids, signature by another key, entry signed for another chain, E written to the OPR and SPR chains, a second signer; all mutants travel the whole block pipeline packed in the block after E and the resulting ledger (all tables) must equal the ledger of the chain without them; differing packs are bisected to single mutants. Salt-window mutants (re-signed at +-12h, +-12h+-1s, +-13h) run one chain each: inside the window the entry executes, outside it is inert. Non-trivial = distinct mutant (scenario, kind, bit index)",
		Assumptions: []string{"ed25519 and secp256k1 verification of the factom library", "differential oracle: no expected values"},
		Run:         runC05,
	})
}

type c05Scenario struct {
	name  string
	era   drive.Era
	eth   bool
	conv  bool
	valid bool // E itself is expected to execute
}

func c05Scenarios(thorough bool) []c05Scenario {
	pip := drive.EraStage(drive.StPIP10)
	v4 := drive.EraStage(drive.StV4)
	pre := drive.EraStage(drive.StBank) // RCD-e never active
	pre.Name = "bank-pre-rcde"
	// activation boundary: the entry sits in block 294 (funding prefix ends at 293). The pinned tree (and
	// therefore mainnet consensus) accepts the key type strictly AFTER the activation height.
	at := drive.EraStage(drive.StV4)
	at.Name = "v4-rcde-activates-at-entry-height"
	at.RCDe = 294
	after := drive.EraStage(drive.StV4)
	after.Name = "v4-rcde-activated-one-block-before"
	after.RCDe = 293
	out := []c05Scenario{
		{"boundary-at/rcde/transfer", at, true, false, false},
		{"boundary-after/rcde/transfer", after, true, false, true},
		{"boundary-at/rcde/conversion", at, true, true, false},
		{"pip10/rcd1/transfer", pip, false, false, true},
		{"pip10/rcd1/conversion", pip, false, true, true},
		{"pip10/rcde/transfer", pip, true, false, true},
		{"pip10/rcde/conversion", pip, true, true, true},
		{"pre-rcde/rcde/transfer", pre, true, false, false},
		{"v4/rcde/transfer", v4, true, false, true},
	}
	if thorough {
		out = append(out,
			c05Scenario{"v4/rcd1/conversion", v4, false, true, true},
			c05Scenario{"v4/rcde/conversion", v4, true, true, true},
			c05Scenario{"pre-rcde/rcd1/transfer", pre, false, false, true},
			c05Scenario{"pre-rcde/rcde/conversion", pre, true, true, false},
		)
	}
	return out
}

type c05Mutant struct {
	label string
	class string
	chain string // tx | opr | spr
	e     fake.Entry
}

func cloneEntry(e fake.Entry) fake.Entry {
	n := fake.Entry{Content: append([]byte{}, e.Content...), Minute: e.Minute}
	for _, x := range e.ExtIDs {
		n.ExtIDs = append(n.ExtIDs, append([]byte{}, x...))
	}
	return n
}

func c05Mutants(E fake.Entry, signer kit.Signer, other kit.Signer, salt int64, eth bool, content []byte, thorough bool) []c05Mutant {
	var out []c05Mutant
	// bit flips: ext ids
	names := []string{"salt", "rcd", "sig"}
	for xi := range E.ExtIDs {
		for bi := 0; bi < len(E.ExtIDs[xi])*8; bi++ {
			m := cloneEntry(E)
			m.ExtIDs[xi][bi/8] ^= 1 << uint(bi%8)
			cls := "bitflip-" + names[xi]
			if eth && xi == 2 && bi/8 == 64 {
				cls = "bitflip-sig-recovery-byte"
			}
			out = append(out, c05Mutant{fmt.Sprintf("flip ext[%d](%s) bit %d", xi, names[xi], bi), cls, "tx", m})
		}
	}
	// bit flips: content
	for bi := 0; bi < len(E.Content)*8; bi++ {
		if !thorough {
			by := bi / 8
			if by >= 32 && by < len(E.Content)-32 && by%4 != 0 {
				continue
			}
		}
		m := cloneEntry(E)
		m.Content[bi/8] ^= 1 << uint(bi%8)
		out = append(out, c05Mutant{fmt.Sprintf("flip content bit %d", bi), "bitflip-content", "tx", m})
	}
	// bytes inserted into / removed from the content under the unchanged signature: a parser that normalises the
	// content before checking the signature would execute the same transactions again under a new entry hash
	for off := 0; off <= len(E.Content); off++ {
		for _, ins := range []string{" ", "\n", "\t", "\r\n  "} {
			if !thorough && ins != " " && off%3 != 0 {
				continue
			}
			m := cloneEntry(E)
			m.Content = append(append(append([]byte{}, E.Content[:off]...), ins...), E.Content[off:]...)
			out = append(out, c05Mutant{fmt.Sprintf("insert %q at content offset %d", ins, off), "content-padded", "tx", m})
		}
		if off < len(E.Content) && (thorough || off%2 == 0) {
			m := cloneEntry(E)
			m.Content = append(append([]byte{}, E.Content[:off]...), E.Content[off+1:]...)
			out = append(out, c05Mutant{fmt.Sprintf("delete content byte %d", off), "content-byte-deleted", "tx", m})
		}
	}
	st := func(label string, ext [][]byte) {
		m := fake.Entry{Content: append([]byte{}, E.Content...)}
		for _, x := range ext {
			m.ExtIDs = append(m.ExtIDs, append([]byte{}, x...))
		}
		out = append(out, c05Mutant{label, "structural", "tx", m})
	}
	s, rcd, sig := E.ExtIDs[0], E.ExtIDs[1], E.ExtIDs[2]
	st("no ext ids", nil)
	st("salt only", [][]byte{s})
	st("missing signature", [][]byte{s, rcd})
	st("missing rcd", [][]byte{s, sig})
	st("missing salt", [][]byte{rcd, sig})
	st("rcd/sig swapped", [][]byte{s, sig, rcd})
	st("pair duplicated", [][]byte{s, rcd, sig, rcd, sig})
	st("extra trailing id", [][]byte{s, rcd, sig, {1}})
	st("extra empty id", [][]byte{s, rcd, sig, {}})
	st("empty signature", [][]byte{s, rcd, {}})
	st("empty rcd", [][]byte{s, {}, sig})
	st("empty salt", [][]byte{{}, rcd, sig})
	st("zero signature", [][]byte{s, rcd, make([]byte, len(sig))})
	st("truncated signature", [][]byte{s, rcd, sig[:len(sig)-1]})
	st("signature + 1 byte", [][]byte{s, rcd, append(append([]byte{}, sig...), 0)})
	// signed by another key: (a) other key's rcd+sig (address mismatch) (b) A's rcd with other's signature
	o := kit.SignContent(drive.IDs.TX, content, salt, other)
	st("signed by another key", o.ExtIDs)
	st("rcd of owner, signature of another key", [][]byte{s, rcd, o.ExtIDs[2]})
	st("rcd of another key, signature of owner", [][]byte{s, o.ExtIDs[1], sig})
	// two signers
	two := kit.SignContent(drive.IDs.TX, content, salt, signer, other)
	st("two signers", two.ExtIDs)
	// forged batches: validly signed by ANOTHER key (the attacker, who holds funds of its own in the transfer
	// scenarios), naming the owner's address as the input of one of several transactions
	var ownerAddr factom.FAAddress
	{
		var parsed struct {
			Transactions []struct {
				Input struct {
					Address factom.FAAddress `json:"address"`
				} `json:"input"`
			} `json:"transactions"`
		}
		if err := json.Unmarshal(content, &parsed); err == nil && len(parsed.Transactions) > 0 {
			ownerAddr = parsed.Transactions[0].Input.Address
		}
	}
	att := kit.Addr(KB)
	forge := func(label string, signers []kit.Signer, txs ...kit.Tx) {
		e := kit.SignContent(drive.IDs.TX, kit.BatchJSON(txs...), salt, signers...)
		out = append(out, c05Mutant{label, "forged-multi-input", "tx", e})
	}
	steal := kit.Transfer(ownerAddr, "pUSD", 5e8, att)
	stealConv := kit.Conversion(ownerAddr, "pUSD", 5e8, "pEUR")
	forge("attacker signs [own 1-unit transfer, owner->attacker]", []kit.Signer{other}, kit.Transfer(att, "pUSD", 1, AddrC), steal)
	forge("attacker signs [own 0-unit transfer, owner->attacker]", []kit.Signer{other}, kit.Transfer(att, "pUSD", 0, AddrC), steal)
	forge("attacker signs [owner->attacker, own 1-unit transfer]", []kit.Signer{other}, steal, kit.Transfer(att, "pUSD", 1, AddrC))
	forge("attacker signs twice [own transfer, owner->attacker]", []kit.Signer{other, other}, kit.Transfer(att, "pUSD", 1, AddrC), steal)
	forge("attacker signs [own transfer, owner conversion]", []kit.Signer{other}, kit.Transfer(att, "pUSD", 1, AddrC), stealConv)
	forge("attacker signs [own conversion, owner->attacker]", []kit.Signer{other}, kit.Conversion(att, "pUSD", 1, "pEUR"), steal)
	forge("attacker signs [own self-transfer, owner->attacker, owner->attacker]", []kit.Signer{other}, kit.Transfer(att, "pUSD", 1, att), steal, kit.Transfer(ownerAddr, "pEUR", 1e8, att))
	// signed for another chain, written to the transaction chain
	f := kit.SignContent(drive.IDs.OPR, content, salt, signer)
	st("signed for the OPR chain id", f.ExtIDs)
	// the valid entry on the other tracked chains
	out = append(out, c05Mutant{"valid entry written to the OPR chain", "other-chain", "opr", cloneEntry(E)})
	out = append(out, c05Mutant{"valid entry written to the SPR chain", "other-chain", "spr", cloneEntry(E)})
	return out
}

var c05Proj = canon.LedgerNZ.Without("pn_grade", "keymr", "prevkeymr", "eb_seq").Without("pn_transaction_batch_holding", "eblock_keymr").Without("pn_history_txbatch", "blockorder")

func runC05(c *core.Ctx, r *core.Result) {
	for si, sc := range c05Scenarios(c.Thorough()) {
		if !(c.Mine(si) || c.Only != "") {
			continue
		}
		if c.Only != "" && !strings.HasPrefix(c.Only, sc.name+"/") {
			continue
		}
		if c.Expired() {
			r.Capped("deadline before " + sc.name)
			return
		}
		c05Run(c, r, sc)
	}
}

func c05Run(c *core.Ctx, r *core.Result, sc c05Scenario) {
	var signer kit.Signer = kit.Key(KA)
	owner := AddrA
	if sc.eth {
		ek := kit.EthKey(1)
		signer = ek
		owner = ek.FAAddress()
	}
	w := MustWorld(sc.era, func(b *drive.Builder) {
		FundStd(b)
		if sc.eth {
			// fund the secp256k1 address from A
			b.Add(drive.BlockSpec{Rates: R1(), OPRPayTo: kit.AddrStr(KM), TX: []fake.Entry{b.Tx(KA, kit.Transfer(AddrA, "pUSD", 200e8, owner))}})
		}
	})
	defer w.Close()

	mkE := func(b *drive.Builder, salt int64) (fake.Entry, []byte) {
		var tx kit.Tx
		if sc.conv {
			tx = kit.Conversion(owner, "pUSD", 10e8, "pEUR")
		} else {
			tx = kit.Transfer(owner, "pUSD", 10e8, AddrB)
		}
		content := kit.BatchJSON(tx)
		return kit.SignContent(drive.IDs.TX, content, salt, signer), content
	}

	// run: prefix + [E?] + [G + mutants] + G + G ; returns dump
	type result struct {
		dump canon.Dump
		out  drive.Outcome
	}
	var E fake.Entry
	var content []byte
	var salt int64
	run := func(withE bool, muts []c05Mutant) result {
		rn := w.Fork()
		defer rn.Close()
		b := rn.B
		salt = b.Salt()
		E, content = mkE(b, salt)
		s := drive.BlockSpec{Rates: R1(), OPRPayTo: kit.AddrStr(KM)}
		if withE {
			s.TX = []fake.Entry{E}
		}
		b.Add(s)
		s2 := drive.BlockSpec{Rates: R2(), OPRPayTo: kit.AddrStr(KM)}
		for _, m := range muts {
			switch m.chain {
			case "tx":
				s2.TX = append(s2.TX, m.e)
			case "opr":
				s2.ExtraOPR = append(s2.ExtraOPR, m.e)
			case "spr":
				s2.SPR = append(s2.SPR, m.e)
			}
		}
		b.Add(s2)
		b.Add(drive.BlockSpec{Rates: R1(), OPRPayTo: kit.AddrStr(KM)})
		b.Add(drive.BlockSpec{Rates: R2(), OPRPayTo: kit.AddrStr(KM)})
		out := rn.Sync()
		return result{rn.Dump(c05Proj), out}
	}

	base := run(true, nil)
	if !base.out.Reached {
		r.Count("inconclusive-baseline-"+outcomeClass(base.out), 1)
		return
	}
	noE := run(false, nil)
	// sanity of the scenario itself: E executes iff sc.valid
	executes := !canon.Equal(base.dump, noE.dump)
	r.Eval()
	r.NonTrivial(sc.name + "|E")
	if executes != sc.valid {
		cls := "valid-entry-has-no-effect"
		if executes {
			cls = "entry-with-inactive-key-type-has-effect"
		}
		r.Violate(core.Violation{Key: sc.name + "/E", Signature: "C05:" + cls + ":" + sc.name,
			Desc: fmt.Sprintf("scenario %s: the signed entry E executes=%v, expected %v", sc.name, executes, sc.valid), Detail: joinDiff(noE.dump, base.dump)})
		return
	}
	muts := c05Mutants(E, signer, kit.Key(KB), salt, sc.eth, content, c.Thorough())
	r.Evaluations += len(muts)
	for _, m := range muts {
		r.NonTrivial(sc.name + "|" + m.label)
	}
	r.Sample(map[string]interface{}{"scenario": sc.name, "mutants": len(muts), "first": muts[0].label, "last": muts[len(muts)-1].label})

	inert := func(set []c05Mutant) bool {
		res := run(true, set)
		if !res.out.Reached {
			return false
		}
		return canon.Equal(base.dump, res.dump)
	}
	remaining := muts
	for iter := 0; iter < 10 && len(remaining) > 0; iter++ {
		if inert(remaining) {
			break
		}
		// find one non-inert mutant
		cur := remaining
		for len(cur) > 1 {
			mid := len(cur) / 2
			if !inert(cur[:mid]) {
				cur = cur[:mid]
			} else if !inert(cur[mid:]) {
				cur = cur[mid:]
			} else {
				break // interaction
			}
		}
		res := run(true, cur)
		var labels []string
		classes := map[string]bool{}
		for _, m := range cur {
			labels = append(labels, m.label)
			classes[m.class] = true
		}
		var cl []string
		for k := range classes {
			cl = append(cl, k)
		}
		effect := "ledger-differs"
		if !res.out.Reached {
			effect = outcomeClass(res.out)
		}
		key := sc.name + "/" + labels[0]
		if c.Want(key) {
			r.Violate(core.Violation{Key: key, Signature: fmt.Sprintf("C05:mutant-not-inert:%s:%s", strings.Join(cl, "+"), effect),
				Desc:   fmt.Sprintf("scenario %s: a mutated copy of a valid entry (%s) changes the ledger although nobody re-signed it", sc.name, strings.Join(labels, "; ")),
				Detail: joinDiff(base.dump, res.dump)})
		}
		var rest []c05Mutant
		for _, m := range remaining {
			if !classes[m.class] {
				rest = append(rest, m)
			}
		}
		remaining = rest
	}

	// salt window: re-signed entries (the key holder cooperates), one chain each
	if sc.valid && !sc.conv {
		for _, dt := range []int64{-13 * 3600, -12*3600 - 1, -12 * 3600, -12*3600 + 1, 0, 12*3600 - 1, 12 * 3600, 12*3600 + 1, 13 * 3600} {
			key := fmt.Sprintf("%s/salt%+d", sc.name, dt)
			if !c.Want(key) {
				continue
			}
			r.Eval()
			r.NonTrivial(key)
			rn := w.Fork()
			b := rn.B
			ts := b.Chain.EntryUnix(b.Next(), 1)
			e, _ := mkE(b, ts-dt) // entry time - salt = dt
			b.Add(drive.BlockSpec{Rates: R1(), OPRPayTo: kit.AddrStr(KM), TX: []fake.Entry{e}})
			b.Add(drive.BlockSpec{Rates: R2(), OPRPayTo: kit.AddrStr(KM)})
			b.Add(drive.BlockSpec{Rates: R1(), OPRPayTo: kit.AddrStr(KM)})
			b.Add(drive.BlockSpec{Rates: R2(), OPRPayTo: kit.AddrStr(KM)})
			out := rn.Sync()
			d := rn.Dump(c05Proj)
			rn.Close()
			if !out.Reached {
				r.Count("inconclusive-salt-"+outcomeClass(out), 1)
				continue
			}
			executed := !canon.Equal(d, noE.dump)
			within := dt >= -12*3600 && dt <= 12*3600
			strictlyOutside := dt < -12*3600 || dt > 12*3600
			if strictlyOutside && executed {
				r.Violate(core.Violation{Key: key, Signature: "C05:salt-outside-window-executes", Desc: fmt.Sprintf("entry whose salt is %d s from its block time executes", dt), Detail: joinDiff(noE.dump, d)})
			}
			if within && !executed {
				r.Violate(core.Violation{Key: key, Signature: "C05:salt-inside-window-rejected", Desc: fmt.Sprintf("entry whose salt is %d s from its block time is ignored", dt)})
			}
			r.Outcome(fmt.Sprintf("salt-dt%+d-executed=%v", dt, executed))
		}
	}
	// the same signed entry twice: first in a block 13 h before its salt (outside the window: inert there), then again 80 blocks
	// (13 h 20 min) later, inside the window: the later copy is the one that executes, exactly as if the early copy were not there
	if sc.valid {
		key := sc.name + "/early-copy-outside-the-window-then-a-copy-inside"
		if c.Want(key) {
			r.Eval()
			r.NonTrivial(key)
			var dumps [2]canon.Dump
			ok := true
			for variant := 0; variant < 2 && ok; variant++ {
				rn := w.Fork()
				b := rn.B
				e, _ := mkE(b, b.Chain.EntryUnix(b.Next(), 1)+13*3600)
				first := drive.BlockSpec{Rates: R1(), OPRPayTo: kit.AddrStr(KM)}
				if variant == 0 {
					first.TX = []fake.Entry{e}
				}
				b.Add(first)
				b.AddEmpty(78)
				b.Add(drive.BlockSpec{Rates: R1(), OPRPayTo: kit.AddrStr(KM)})
				b.Add(drive.BlockSpec{Rates: R1(), OPRPayTo: kit.AddrStr(KM), TX: []fake.Entry{e}})
				b.Add(drive.BlockSpec{Rates: R2(), OPRPayTo: kit.AddrStr(KM)})
				b.Add(drive.BlockSpec{Rates: R1(), OPRPayTo: kit.AddrStr(KM)})
				out := rn.Sync()
				dumps[variant] = rn.Dump(c05Proj)
				rn.Close()
				if !out.Reached {
					r.Count("inconclusive-early-copy-"+outcomeClass(out), 1)
					ok = false
				}
			}
			if ok {
				if canon.Equal(dumps[1], noELate(w, mkE)) {
					panic("harness: C05 " + key + ": the copy inside the window does not execute on its own: the scenario is vacuous")
				}
				if !canon.Equal(dumps[0], dumps[1]) {
					r.Violate(core.Violation{Key: key, Signature: "C05:early-inert-copy-changes-what-the-valid-copy-does", Desc: "an entry written once outside its validity window (inert) and once inside it does not have the effect of the valid copy alone", Detail: joinDiff(dumps[1], dumps[0])})
				}
				r.Outcome("early-copy:checked")
			}
		}
	}
	_ = factom.Bytes32{}
}

// noELate is the ledger of the same 84-block chain without any copy of the entry.
func noELate(w *World, mkE func(b *drive.Builder, salt int64) (fake.Entry, []byte)) canon.Dump {
	rn := w.Fork()
	defer rn.Close()
	b := rn.B
	b.Add(drive.BlockSpec{Rates: R1(), OPRPayTo: kit.AddrStr(KM)})
	b.AddEmpty(78)
	b.Add(drive.BlockSpec{Rates: R1(), OPRPayTo: kit.AddrStr(KM)})
	b.Add(drive.BlockSpec{Rates: R1(), OPRPayTo: kit.AddrStr(KM)})
	b.Add(drive.BlockSpec{Rates: R2(), OPRPayTo: kit.AddrStr(KM)})
	b.Add(drive.BlockSpec{Rates: R1(), OPRPayTo: kit.AddrStr(KM)})
	rn.Sync()
	return rn.Dump(c05Proj)
}

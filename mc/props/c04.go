package props

import (
	"math/big"
	"encoding/hex"
	"encoding/json"
	"fmt"
	"sort"
	"strings"

	"github.com/Factom-Asset-Tokens/factom"
	"github.com/pegnet/pegnet/modules/grader"
	"github.com/pegnet/pegnet/modules/graderStake"
	"github.com/pegnet/pegnetd/fat/fat2"
	"github.com/pegnet/pegnetd/node"

	"pegverif/core"
	"pegverif/drive"
	"pegverif/fake"
	"pegverif/kit"
	"pegverif/sqlw"
)

// C04 Supply conservation: value is created or destroyed only by protocol events.
func init() {
	core.Register(&core.Prop{
		ID: "C04", Level: "exploration",
		Rule: "per-address, per-asset, per-block accounting over whole chains: the two coverage chains (pre-2.0 timeline with burns, transfers, conversions, rejected batches, PEG requests with refunds across the bank fork; 2.x timeline through two snapshots with staking records, burn-address transfers, zeroings, mint, mint burn, averaging) and one 3-block chain per edge-semantics signed batch (19 batches x 6 eras). After EVERY committed block the balance delta of EVERY address in EVERY asset must equal the sum of that block's enumerated events computed from the chain content: grader-library rewards to their payout addresses, valid FCT burns, for each entry whose execution height is this block: input debited once, each transfer output credited to its recipient (burn-address outputs destroyed), conversion output at the executing block's recorded rates, PEG-request yield and refund as recorded, the one-time adjustments on the special addresses; at snapshot heights PEG is left to C14/C15. An evaluation = one (chain, block); non-trivial = block with at least one event",
		Assumptions: []string{"which entries executed in a block is read from their recorded status (C17 checks that status against effects); all amounts are recomputed from the entry content and the recorded rates", "PEG at multiples of 144 from 2.0 on (holder and developer payouts) is checked by C14 and C15"},
		Run:         runC04,
	})
}

type c04Chain struct {
	name  string
	era   drive.Era
	build func(b *drive.Builder)
}

func c04Chains() []c04Chain {
	var out []c04Chain
	l, x := CoverageLegacy(), Coverage2x()
	out = append(out, c04Chain{"coverage-legacy", l.Era, l.Build}, c04Chain{"coverage-2x", x.Era, x.Build})
	// a whale and a dust-sized PEG request sharing one bank: the dust request's proportional share floors to 0
	for _, st := range []int{drive.StBank, drive.StV4} {
		era := drive.EraStage(st)
		for _, form := range []string{"separate", "onebatch"} {
			form := form
			out = append(out, c04Chain{"bank-whale+dust/" + era.Name + "/" + form, era, func(b *drive.Builder) {
				g := drive.BlockSpec{Rates: R1(), OPRPayTo: kit.AddrStr(KM)}
				s := g
				s.Factoid = []fake.FTx{kit.Burn(KA, 200000e8, BurnRCD(), 5)}
				b.Add(s)
				b.Add(g)
				whale, dust := kit.Conversion(AddrA, "pFCT", 20000e8, "PEG"), kit.Conversion(AddrA, "pFCT", 2, "PEG")
				s = g
				if form == "onebatch" {
					s.TX = []fake.Entry{b.Tx(KA, whale, dust)}
				} else {
					s.TX = []fake.Entry{b.Tx(KA, whale), b.Tx(KA, dust)}
				}
				b.Add(s)
				b.Add(drive.BlockSpec{Rates: R2(), OPRPayTo: kit.AddrStr(KM)})
				b.Add(g)
			}})
		}
	}
	for _, st := range []int{drive.StPegPrice, drive.StBank, drive.StV4, drive.StV20, drive.StV202, drive.StPIP10} {
		era := drive.EraStage(st)
		for _, sb := range c08SemanticBatches(era) {
			sb := sb
			out = append(out, c04Chain{"batch/" + era.Name + "/" + sb.name, era, func(b *drive.Builder) {
				FundStd(b)
				b.Add(drive.BlockSpec{Rates: R1(), OPRPayTo: kit.AddrStr(KM), TX: []fake.Entry{sb.entry(b)}})
				b.Add(drive.BlockSpec{Rates: R2(), OPRPayTo: kit.AddrStr(KM)})
				b.Add(drive.BlockSpec{Rates: R1(), OPRPayTo: kit.AddrStr(KM)})
			}})
		}
	}
	return out
}

func runC04(c *core.Ctx, r *core.Result) {
	for i, ch := range c04Chains() {
		if !c.Mine(i) && c.Only == "" {
			continue
		}
		if c.Only != "" && !strings.HasPrefix(c.Only, ch.name+"@") && c.Only != ch.name {
			continue
		}
		if c.Expired() {
			r.Capped("deadline before " + ch.name)
			return
		}
		c04Run(c, r, ch)
	}
}

type c04Delta map[string]map[string]int64 // addr hex -> asset -> delta

func (d c04Delta) add(a factom.FAAddress, asset string, v int64) {
	k := hex.EncodeToString(a[:])
	if d[k] == nil {
		d[k] = map[string]int64{}
	}
	d[k][asset] += v
}

func c04Run(c *core.Ctx, r *core.Result, ch c04Chain) {
	era := ch.era
	era.Apply()
	b := drive.NewBuilder(era)
	// record previous winners per height while building
	prevAt := map[uint32][]string{}
	ch.build(b)
	{
		// recompute previous winners per height with the grader library (as the builder does)
		var prev []string
		for h := era.Base + 1; h <= b.Chain.Tip(); h++ {
			prevAt[h] = append([]string{}, prev...)
			blk := b.Chain.Block(h)
			if len(blk.OPR) > 0 {
				g, err := grader.NewGrader(era.OPRVersion(h), int32(h), prev)
				if err == nil {
					for _, e := range blk.OPR {
						eh := fake.EntryHash(drive.IDs.OPR, e)
						g.AddOPR(eh[:], e.ExtIDs, e.Content)
					}
					prev = g.Grade().WinnersShortHashes()
				}
			}
		}
	}
	dir := drive.Scratch("c04")
	run := &Run{B: b, Dir: dir, DBPath: dir + "/db"}
	defer run.Close()
	d := run.Open(nil)
	states := map[uint32]*LedgerView{}
	if v, err := ReadLedger(d.DBFile()); err == nil {
		states[era.Base] = v
	}
	d.DB.SetHooks(&sqlw.Hooks{After: func(op *sqlw.Op, err error) {
		if op.Kind == "commit" && err == nil {
			if v, e := ReadLedger(d.DBFile()); e == nil {
				states[v.Synced] = v
			}
		}
	}})
	out := run.Sync()
	if !out.Reached {
		r.Count("inconclusive-"+outcomeClass(out), 1)
		return
	}
	final := states[b.Chain.Tip()]
	// the user's view of supply: get-pegnet-issuance must equal the per-asset sum of all balances
	if final != nil && d != nil {
		if raw, aerr := newAPI(d).call("get-pegnet-issuance", nil); aerr == nil {
			var res struct {
				Issuance map[string]uint64 `json:"issuance"`
			}
			json.Unmarshal(raw, &res)
			sup := final.Supply()
			bad := ""
			for asset, x := range sup {
				if !x.IsUint64() || res.Issuance[asset] != x.Uint64() {
					bad = fmt.Sprintf("%s: issuance %d, sum of balances %s", asset, res.Issuance[asset], x)
				}
			}
			for asset, x := range res.Issuance {
				if x != 0 && sup[asset] == nil {
					bad = fmt.Sprintf("%s: issuance %d, no balances", asset, x)
				}
			}
			r.Eval()
			if bad != "" {
				r.Violate(core.Violation{Key: ch.name + "@issuance", Signature: "C04:get-pegnet-issuance-differs-from-sum-of-balances", Desc: "chain " + ch.name + ": " + bad})
			}
		} else if len(final.Balances) > 0 {
			r.Violate(core.Violation{Key: ch.name + "@issuance", Signature: "C04:get-pegnet-issuance-fails", Desc: "chain " + ch.name + ": " + aerr.Error()})
		}
	}
	// index entries by hash
	type entryAt struct {
		e fake.Entry
		h uint32
	}
	entries := map[string]entryAt{}
	for h := era.Base + 1; h <= b.Chain.Tip(); h++ {
		for _, e := range b.Chain.Block(h).TX {
			eh := fake.EntryHash(drive.IDs.TX, e)
			k := hex.EncodeToString(eh[:])
			if _, dup := entries[k]; !dup {
				entries[k] = entryAt{e, h}
			}
		}
	}
	if strings.Contains(ch.name, "/chained-self") {
		// non-vacuity: a chained batch must really be accepted on the unchanged tree
		for ehx, ea := range entries {
			if ea.h == era.Base+5 && len(final.Batches[ehx]) > 0 {
				switch x := final.Batches[ehx][0].Executed; {
				case x > 0:
					r.Outcome("chained-batch:executed")
				case x < 0:
					r.Outcome("chained-batch:rejected")
				default:
					r.Outcome("chained-batch:pending")
				}
			}
		}
	}
	oldBurn, newBurn := OldBurn(), GlobalBurn()
	mint, _ := factom.NewFAAddress(node.GlobalMintAddress)
	for h := era.Base + 1; h <= b.Chain.Tip(); h++ {
		pre, post := states[h-1], states[h]
		if pre == nil || post == nil {
			continue
		}
		key := fmt.Sprintf("%s@%d", ch.name, h)
		if !c.Want(key) && c.Only != "" && c.Only != ch.name {
			continue
		}
		r.Eval()
		exp := c04Delta{}
		events := 0
		blk := b.Chain.Block(h)
		// rewards
		if len(blk.OPR) > 0 {
			g, err := grader.NewGrader(era.OPRVersion(h), int32(h), prevAt[h])
			if err == nil {
				for _, e := range blk.OPR {
					eh := fake.EntryHash(drive.IDs.OPR, e)
					g.AddOPR(eh[:], e.ExtIDs, e.Content)
				}
				skipRewards := false
				if h >= era.V20 && h < era.V202 && len(post.Rates[h]) == 0 && len(g.Grade().Winners()) > 0 {
					skipRewards = true // pre-2.0.2 band conflict: C11-K2 owns it
				}
				if !skipRewards {
					for _, wn := range g.Grade().Winners() {
						if a, err := factom.NewFAAddress(wn.OPR.GetAddress()); err == nil {
							exp.add(a, "PEG", wn.Payout())
							events++
						}
					}
				}
			}
		}
		if h >= era.V20 && len(blk.SPR) > 0 && !(h < era.V202 && len(post.Rates[h]) == 0) {
			sg, err := graderStake.NewGrader(era.SPRVersion(h), int32(h))
			if err == nil {
				top := topHolders(pre, 100)
				for _, e := range blk.SPR {
					if len(e.ExtIDs) >= 2 && top[hex.EncodeToString(e.ExtIDs[1])] {
						eh := fake.EntryHash(drive.IDs.SPR, e)
						sg.AddSPR(eh[:], e.ExtIDs, e.Content)
					}
				}
				for _, wn := range sg.Grade().Winners() {
					if a, err := factom.NewFAAddress(wn.SPR.GetAddress()); err == nil {
						exp.add(a, "PEG", wn.Payout())
						events++
					}
				}
			}
		}
		// burns
		if h < era.V20 {
			burn := BurnRCD()
			for _, t := range blk.Factoid {
				if len(t.Inputs) == 1 && len(t.Outputs) == 0 && len(t.ECOuts) == 1 && t.ECOuts[0].Address == burn && t.ECOuts[0].Amount == 0 {
					exp.add(factom.FAAddress(t.Inputs[0].Address), "pFCT", int64(t.Inputs[0].Amount))
					events++
				}
			}
		}
		// entries executed in this block
		spot := final.Rates[h]
		for ehx, rows := range final.Batches {
			ea, ok := entries[ehx]
			if !ok || len(rows) == 0 || rows[0].Executed != int64(h) {
				continue
			}
			fe := toEntry(drive.IDs.TX, ea.e, b.Chain.EntryUnix(ea.h, ea.e.Minute))
			tb, err := fat2.NewTransactionBatch(fe, -1)
			if err != nil {
				continue
			}
			for ti, t := range tb.Transactions {
				events++
				src := t.Input.Type.String()
				exp.add(t.Input.Address, src, -int64(t.Input.Amount))
				if t.IsConversion() {
					dst := t.Conversion.String()
					if dst == "PEG" && h >= era.ConvLimit && h < era.V20 {
						// bank: yield and refund as recorded (C16 checks them)
						for _, tr := range final.Txs[ehx] {
							if tr.TxIndex == ti {
								exp.add(t.Input.Address, "PEG", tr.ToAmount)
								var outs []struct {
									Amount int64 `json:"amount"`
								}
								if tr.Outputs != "" {
									json.Unmarshal([]byte(tr.Outputs), &outs)
								}
								refund := int64(0)
								if len(outs) == 1 {
									refund = outs[0].Amount
									exp.add(t.Input.Address, src, outs[0].Amount)
								}
								// the request is itself an event that must conserve value: what the input was worth is either
								// turned into PEG or refunded, up to the rounding of the two divisions (one unit of each asset)
								if lost, tol, ok := pegRequestLoss(int64(t.Input.Amount), spot[src], tr.ToAmount, refund, spot["PEG"]); ok && (lost.Sign() < 0 || lost.Cmp(tol) > 0) {
									r.Violate(core.Violation{Key: key, Signature: "C04:peg-request-does-not-conserve-value:" + c04Class(ch.name, era, h),
										Desc: fmt.Sprintf("chain %s, height %d: a PEG request of %d %s received %d PEG and a refund of %d: value in minus value out = %s rate-units, rounding allows [0, %s]", ch.name, h, t.Input.Amount, src, tr.ToAmount, refund, lost, tol)})
								}
							}
						}
						continue
					}
					s, dd := spot[src], spot[dst]
					var amt int64
					var okc bool
					if h >= era.PIP10 {
						// any admissible window: take the one matching the recorded amount if any, else the height window
						wins := final.AvgWindows(final.LastRatedBefore(h), era.AvgPeriod)
						var rec int64 = -1
						for _, tr := range final.Txs[ehx] {
							if tr.TxIndex == ti {
								rec = tr.ToAmount
							}
						}
						for _, w := range wins {
							sa, da := final.AvgOver(src, w, era.AvgPeriod/2), final.AvgOver(dst, w, era.AvgPeriod/2)
							if sa == 0 || da == 0 {
								continue
							}
							if x, ok2 := RefConvert(int64(t.Input.Amount), minU(s, sa), maxU(dd, da)); ok2 {
								if !okc || x == rec {
									amt, okc = x, true
								}
							}
						}
					} else {
						amt, okc = RefConvert(int64(t.Input.Amount), s, dd)
					}
					if okc {
						exp.add(t.Input.Address, dst, amt)
					}
				} else {
					var outSum uint64
					wrapped := false
					for _, o := range t.Transfers {
						if outSum+o.Amount < outSum {
							wrapped = true
						}
						outSum += o.Amount
					}
					if wrapped || outSum != t.Input.Amount {
						r.Violate(core.Violation{Key: key, Signature: "C04:executed-transfer-credits-more-than-it-debits:" + c04Class(ch.name, era, h),
							Desc: fmt.Sprintf("chain %s, height %d: an executed transfer debits %d and its outputs do not sum to that in exact arithmetic", ch.name, h, t.Input.Amount)})
					}
					for _, o := range t.Transfers {
						destroyed := (o.Address == newBurn && h >= era.V202) || (o.Address == oldBurn && h < era.V202)
						if !destroyed {
							exp.add(o.Address, src, int64(o.Amount))
						}
					}
				}
			}
		}
		// one-time adjustments
		zero := func(a factom.FAAddress, only map[string]bool) {
			for asset, v := range pre.Balances[hex.EncodeToString(a[:])] {
				if only != nil && !only[asset] {
					continue
				}
				exp.add(a, asset, -int64(v))
				events++
			}
		}
		if h == era.DevRewards {
			zero(oldBurn, nil)
		}
		if h == era.V202 {
			zero(newBurn, nil)
		}
		mintList := map[string]bool{}
		for t, amt := range c15MintList { // the harness' own copy of the 2.0.4 supply
			mintList[t] = true
			if h == era.V204 {
				exp.add(mint, t, int64(amt*1e8))
				events++
			}
		}
		if h == era.V204Burn {
			zero(mint, mintList)
		}
		if events > 0 {
			r.NonTrivial(key)
		}
		// compare every address, every asset
		skipPEG := h >= era.V20 && h%144 == 0
		addrs := map[string]bool{}
		for a := range pre.Balances {
			addrs[a] = true
		}
		for a := range post.Balances {
			addrs[a] = true
		}
		for a := range exp {
			addrs[a] = true
		}
		var diffs []string
		for a := range addrs {
			assets := map[string]bool{}
			for x := range pre.Balances[a] {
				assets[x] = true
			}
			for x := range post.Balances[a] {
				assets[x] = true
			}
			for x := range exp[a] {
				assets[x] = true
			}
			for x := range assets {
				if x == "PEG" && skipPEG {
					continue
				}
				got := int64(post.Balances[a][x]) - int64(pre.Balances[a][x])
				if got != exp[a][x] {
					diffs = append(diffs, fmt.Sprintf("%s… %s: delta %d, events sum to %d", a[:10], x, got, exp[a][x]))
				}
			}
		}
		if len(diffs) > 0 {
			sort.Strings(diffs)
			n := len(diffs)
			if n > 6 {
				diffs = append(diffs[:6], fmt.Sprintf("… %d (address, asset) pairs", n))
			}
			r.Violate(core.Violation{Key: key, Signature: "C04:balance-delta-without-matching-event:" + c04Class(ch.name, era, h),
				Desc: fmt.Sprintf("chain %s, height %d: balance changes that are not the sum of the block's protocol events", ch.name, h), Detail: diffs})
		}
	}
	if len(r.Samples) < 3 {
		r.Sample(map[string]interface{}{"chain": ch.name, "blocks": b.Chain.Tip() - era.Base})
	}
}

// pegRequestLoss returns input*srcRate - (yield*pegRate + refund*srcRate) and the rounding allowance pegRate+srcRate.
func pegRequestLoss(in int64, srcRate uint64, yield, refund int64, pegRate uint64) (lost, tol *big.Int, ok bool) {
	if srcRate == 0 || pegRate == 0 {
		return nil, nil, false
	}
	sr, pr := new(big.Int).SetUint64(srcRate), new(big.Int).SetUint64(pegRate)
	lost = new(big.Int).Mul(big.NewInt(in), sr)
	lost.Sub(lost, new(big.Int).Mul(big.NewInt(yield), pr))
	lost.Sub(lost, new(big.Int).Mul(big.NewInt(refund), sr))
	tol = new(big.Int).Add(sr, pr)
	return lost, tol, true
}

func c04Class(name string, era drive.Era, h uint32) string {
	if strings.HasPrefix(name, "batch/") {
		return strings.TrimPrefix(name, "batch/")
	}
	return name
}

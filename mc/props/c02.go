package props

import (
	sqlite3 "github.com/mattn/go-sqlite3"
	"fmt"
	"os"
	"os/exec"
	"syscall"
	"strings"

	"pegverif/canon"
	"pegverif/core"
	"pegverif/drive"
	"pegverif/fake"
	"pegverif/sqlw"
)

// C02 Per-block atomicity and crash consistency.
//
// Fault enumeration: while the real DBlockSync applies a coverage chain, the SQL
// driver wrapper stops before EVERY driver-level operation (and after every
// COMMIT) and copies db + journal: byte for byte what SIGKILL at that instant
// leaves behind. Every image is re-opened by a fresh connection and a fresh node.
func init() {
	core.Register(&core.Prop{
		ID: "C02", Level: "fault_enumeration",
		Rule: "crash point = (block of the coverage chain, driver-level SQL operation index within it: before begin / every prepare, exec, query / InsertSynced / before COMMIT / after COMMIT); an evaluation = one crash image re-opened (hot-journal recovery by SQLite) and checked: ledger == uninterrupted ledger at the image's own recorded sync height, sync height == number of committed blocks, version rows contiguous, and (for the resumed subset) a fresh node resumed on the image reaches the uninterrupted tip ledger; non-trivial = image taken while the block's transaction already held uncommitted writes; distinct by (chain, height, op index)",
		Assumptions: []string{"SQLite atomic commit / hot-journal recovery", "process death leaves the OS page cache intact (power loss and torn sectors are outside the property)", "file copy between two statements equals the on-disk state at SIGKILL: the daemon is single-threaded with respect to the database"},
		Run:         runC02,
	})
}

type c02Image struct {
	height    uint32 // block in flight
	op        int    // op index within the block
	desc      string
	dir       string
	committed uint32 // height committed when the image was taken
	dirty     bool   // the block tx had executed at least one write
}

// KillTest is run in a child process: it applies the named coverage chain and sends
// itself SIGKILL right before driver-level operation number `op` of block `height`.
func KillTest(chain string, height uint32, op int, dbpath string) {
	var cov Coverage
	for _, cv := range []Coverage{CoverageLegacy(), Coverage2x(), CoverageAcross100(), CoverageLargeBlock()} {
		if cv.Name == chain {
			cov = cv
		}
	}
	cov.Era.Apply()
	b := drive.NewBuilder(cov.Era)
	cov.Build(b)
	d, err := drive.Open(dbpath, fake.NewNode(b.Chain), nil, false)
	if err != nil {
		os.Exit(3)
	}
	committed := cov.Era.Base
	n := 0
	d.DB.SetHooks(&sqlw.Hooks{
		Before: func(o *sqlw.Op) error {
			if o.Kind == "begin" {
				n = 0
			}
			n++
			if committed+1 == height && n == op {
				syscall.Kill(os.Getpid(), syscall.SIGKILL)
				select {}
			}
			return nil
		},
		After: func(o *sqlw.Op, err error) {
			if o.Kind == "commit" && err == nil {
				committed++
			}
		},
	})
	d.SyncTo(b.Chain.Tip(), drive.SyncOpts{})
	os.Exit(4) // the crash point was never reached
}

func thinnedAt(cov Coverage, h uint32) bool { return cov.ImageStride != nil && cov.ImageStride(h) > 1 }

// c02Dump reads the ledger through a second connection (see canon.FileWAL for the WAL case).
func c02Dump(dbfile string, wal bool) (canon.Dump, error) {
	if wal {
		return canon.FileWAL(dbfile, canon.Ledger)
	}
	return canon.File(dbfile, canon.Ledger)
}

func runC02(c *core.Ctx, r *core.Result) {
	covs := []Coverage{CoverageLegacy(), Coverage2x()}
	for _, cov := range append(covs, CoverageAcross100(), CoverageLargeBlock()) {
		if only := os.Getenv("PVMC_C02_CHAIN"); only != "" && only != cov.Name {
			continue
		}
		c02Chain(c, r, cov, false)
	}
	if c.Thorough() {
		for _, cov := range covs {
			c02Chain(c, r, cov, true) // WAL mode
		}
	}
}

func c02Chain(c *core.Ctx, r *core.Result, cov Coverage, wal bool) {
	cov.Era.Apply()
	b := drive.NewBuilder(cov.Era)
	cov.Build(b)
	tip := b.Chain.Tip()
	base := cov.Era.Base
	name := cov.Name
	if wal {
		name += "-wal"
	}

	// shard: heights
	var mine = map[uint32]bool{}
	k := 0
	for h := base + 1; h <= tip; h++ {
		if !cov.Interesting(h) {
			continue
		}
		k++
		if c.Mine(k) || c.Only != "" {
			mine[h] = true
		}
	}
	if len(mine) == 0 {
		return
	}
	dir := drive.Scratch("c02")
	defer os.RemoveAll(dir)

	// ---- the uninterrupted run, with imaging at my heights
	D := map[uint32]canon.Dump{}
	var images []*c02Image
	var d *drive.Daemon
	committed := base
	opInBlock := 0
	dirty := false
	snap := func(desc string) {
		h := committed + 1
		if desc == "after-commit" {
			h = committed
		}
		if !mine[h] {
			return
		}
		if cov.ImageStride != nil {
			if n := cov.ImageStride(h); n > 1 && opInBlock%n != 0 && opInBlock != 1 && !strings.Contains(desc, "commit") && !strings.Contains(desc, "pn_metadata") {
				return
			}
		}
		img := &c02Image{height: h, op: opInBlock, desc: desc, committed: committed, dirty: dirty,
			dir: fmt.Sprintf("%s/img-%d-%d", dir, h, len(images))}
		if err := drive.CopyDB(d.Path, img.dir+"/db"); err != nil {
			panic("harness: image copy: " + err.Error())
		}
		images = append(images, img)
	}
	hooks := &sqlw.Hooks{
		Before: func(op *sqlw.Op) error {
			if op.Kind == "begin" {
				opInBlock = 0
				dirty = false
			}
			opInBlock++
			sq := op.SQL
			if len(sq) > 50 {
				sq = sq[:50]
			}
			snap("before " + op.Kind + " " + strings.Join(strings.Fields(sq), " "))
			return nil
		},
		After: func(op *sqlw.Op, err error) {
			if err == nil && op.InTx && op.IsWrite() && op.Kind != "begin" {
				dirty = true
			}
			if op.Kind == "commit" && err == nil {
				committed++
				dump, e := c02Dump(d.DBFile(), wal)
				if e != nil {
					panic("harness: dump: " + e.Error())
				}
				D[committed] = dump
				opInBlock++
				snap("after-commit")
			}
		},
	}
	var err error
	mainNode := fake.NewNode(b.Chain)
	mainNode.KeepLog = true
	d, err = drive.Open(dir+"/main/db", mainNode, nil, wal)
	if err != nil {
		panic("harness: " + err.Error())
	}
	if dump, e := c02Dump(d.DBFile(), wal); e == nil {
		D[base] = dump
	}
	d.DB.SetHooks(hooks)
	out := d.SyncTo(tip, drive.SyncOpts{})
	d.Close()
	if !out.Reached {
		r.Violate(core.Violation{Key: name + "/uninterrupted", Signature: "C02:harness:coverage-chain-does-not-sync:" + errClass(out.String()),
			Desc: "coverage chain does not sync on the unchanged daemon: " + out.String()})
		return
	}

	// upstream requests of each block, in order of arrival (a block's requests follow its dblock request)
	reqsAt := map[uint32][]fake.Req{}
	{
		cur := uint32(0)
		for _, rq := range mainNode.Log {
			if rq.Kind == "dblock" {
				cur = rq.Height
			}
			if rq.Kind != "heights" && cur != 0 {
				reqsAt[cur] = append(reqsAt[cur], rq)
			}
		}
	}
	// ---- clean-restart references for attribution of resume differences (C09)
	cleanRestart := map[uint32]string{}
	cleanRef := func(s uint32) string {
		if v, ok := cleanRestart[s]; ok {
			return v
		}
		// image taken right after commit of height s is a clean stop at s
		v := ""
		cleanRestart[s] = v
		return v
	}
	_ = cleanRef

	resumeStride := 16
	if c.Thorough() {
		resumeStride = 1
	}
	startDir := dir + "/block-start"
	startHeight := uint32(0)
	for i, img := range images {
		if img.op == 1 && strings.HasPrefix(img.desc, "before begin") {
			// the state every failure run of this block starts from
			os.RemoveAll(startDir)
			if err := drive.CopyDB(img.dir+"/db", startDir+"/db"); err == nil {
				startHeight = img.height
				if !wal && (c.Only == "" || strings.Contains(c.Only, "/request-fails/")) {
					// (e) "a block fails at any instant", upstream side: one request of this block fails once
					c02FailRequests(c, r, cov, b, D, startDir, img.height, reqsAt[img.height], name, dir)
				}
			}
		}
		key := fmt.Sprintf("%s/h%d/op%d", name, img.height, img.op)
		if !c.Want(key) && c.Only != key+"/fails" {
			os.RemoveAll(img.dir)
			continue
		}
		if c.Expired() {
			r.Capped(fmt.Sprintf("deadline: %d of %d images of this shard verified", i, len(images)))
			break
		}
		r.Eval()
		if img.dirty {
			r.NonTrivial(key)
		}
		dbfile := drive.DBFileOf(img.dir + "/db")
		// the node that resumes must be the FIRST to open what the crash left behind (its own start-up code decides what happens
		// to a hot journal): it gets an untouched copy of the image, the canonical dump below reads another
		nearCommit0 := strings.Contains(img.desc, "COMMIT") || strings.Contains(img.desc, "commit") || strings.Contains(img.desc, "pn_metadata") || strings.Contains(img.desc, "pn_sync_version")
		nodeDir := ""
		if img.op%resumeStride == 0 || nearCommit0 || c.Only != "" {
			nodeDir = img.dir + "-node"
			if err := drive.CopyDB(img.dir+"/db", nodeDir+"/db"); err != nil {
				panic("harness: image copy: " + err.Error())
			}
		}
		// (a)+(b): open with a fresh read-write connection (SQLite recovers a hot journal)
		openImg := canon.FileRW
		if wal {
			openImg = canon.FileWAL
		}
		all, e := openImg(dbfile, canon.All)
		if e != nil {
			r.Violate(core.Violation{Key: key, Signature: "C02:" + cov.Name + ":image-unreadable", Desc: "crash image cannot be opened: " + e.Error(), Detail: []string{img.desc}})
			continue
		}
		synced := base
		for _, row := range all["pn_metadata"] {
			if strings.Contains(row, `name="synced"`) {
				// value=x'7b2253796e636564223a3239357d' -> {"Synced":295}
				synced = parseSynced(row)
			}
		}
		ledger := canon.Dump{}
		for t, rows := range all {
			if t != "pn_sync_version" {
				ledger[t] = rows
			}
		}
		ok := true
		if synced != img.committed {
			ok = false
			r.Violate(core.Violation{Key: key, Signature: "C02:" + cov.Name + ":recorded-height-not-committed-height",
				Desc:   fmt.Sprintf("image records sync height %d but %d blocks were committed at the crash point", synced, img.committed),
				Detail: []string{img.desc}})
		}
		if ref, have := D[synced]; have && !canon.Equal(ref, ledger) {
			ok = false
			r.Violate(core.Violation{Key: key, Signature: "C02:" + cov.Name + ":ledger-not-equal-to-recorded-height:" + strings.Join(canon.TablesDiffering(ref, ledger), "+"),
				Desc:   fmt.Sprintf("crash image (block %d in flight, %s) holds a ledger that is not the ledger of its recorded height %d", img.height, img.desc, synced),
				Detail: joinDiff(ref, ledger)})
		}
		// version rows: base+1..synced exactly once (+ fork back-fill rows with version -1)
		want := map[uint32]bool{}
		for h := base + 1; h <= synced; h++ {
			want[h] = true
		}
		for _, row := range all["pn_sync_version"] {
			var h uint32
			var v int
			fmt.Sscanf(row, "height=%d version=%d", &h, &v)
			if v == -1 {
				continue
			}
			if !want[h] {
				ok = false
				r.Violate(core.Violation{Key: key, Signature: "C02:" + cov.Name + ":version-row-above-synced", Desc: fmt.Sprintf("pn_sync_version holds height %d but synced is %d", h, synced), Detail: []string{img.desc}})
			}
			delete(want, h)
		}
		if len(want) > 0 {
			ok = false
			r.Violate(core.Violation{Key: key, Signature: "C02:" + cov.Name + ":version-row-gap", Desc: fmt.Sprintf("pn_sync_version misses %d heights <= synced %d", len(want), synced), Detail: []string{img.desc}})
		}
		r.Outcome(fmt.Sprintf("image-synced=%s", map[bool]string{true: "inflight-1", false: "inflight"}[synced < img.height]))

		// (c) resume on the image
		nearCommit := strings.Contains(img.desc, "COMMIT") || strings.Contains(img.desc, "commit") || strings.Contains(img.desc, "pn_metadata") || strings.Contains(img.desc, "pn_sync_version")
		if ok && (img.op%resumeStride == 0 || nearCommit || c.Only != "") {
			r.Count("resumed", 1)
			era := cov.Era
			era.Apply()
			rd, e := drive.Open(nodeDir+"/db", fake.NewNode(b.Chain), nil, wal)
			if e != nil {
				r.Violate(core.Violation{Key: key, Signature: "C02:" + cov.Name + ":restart-refused:" + errClass(e.Error()), Desc: "fresh node refuses the crash image: " + e.Error(), Detail: []string{img.desc}})
			} else {
				ro := rd.SyncTo(tip, drive.SyncOpts{})
				rd.Close()
				if !ro.Reached {
					r.Violate(core.Violation{Key: key, Signature: "C02:" + cov.Name + ":resume-" + outcomeClass(ro) + ":" + errClass(ro.LastErr+ro.DiedMsg), Desc: "resume from crash image does not reach the tip: " + ro.String(), Detail: []string{img.desc}})
				} else {
					got, _ := c02Dump(drive.DBFileOf(nodeDir+"/db"), wal)
					if !canon.Equal(D[tip], got) {
						r.Violate(core.Violation{Key: key, Signature: "C02:" + cov.Name + ":resume-ledger-differs:" + strings.Join(canon.TablesDiffering(D[tip], got), "+"),
							Desc:   fmt.Sprintf("resuming from the crash image (block %d in flight, %s) and syncing to the tip gives a different ledger than the uninterrupted run", img.height, img.desc),
							Detail: joinDiff(D[tip], got)})
					}
				}
			}
		}
		// (d) "a block fails at any instant": the same operation returns an error once instead of the process dying there.
		// The daemon (restarted if it chooses to exit) must still apply every height once, in order, without gaps.
		if ok && !wal && startHeight == img.height && strings.HasPrefix(img.desc, "before ") && (img.op%resumeStride == 0 || nearCommit || c.Only != "") && (!thinnedAt(cov, img.height) || nearCommit) {
			r.Count("block-failures-injected", 1)
			c02FailAt(r, cov, b, D, startDir, img, key, dir)
		}
		// conformance of the image method: really SIGKILL a child process at the same point and compare
		killStride := 997
		if c.Thorough() {
			killStride = 97
		}
		thinned := thinnedAt(cov, img.height) // few images, each far into a large transaction: all of them
		if !wal && img.desc != "after-commit" && (i%killStride == 0 || c.Only != "" || thinned) {
			kdir := img.dir + "-kill"
			os.MkdirAll(kdir, 0777)
			self, _ := os.Executable()
			cmd := exec.Command(self, "killtest", cov.Name, fmt.Sprint(img.height), fmt.Sprint(img.op), kdir+"/db")
			cmd.Env = append(os.Environ(), "LXRBITSIZE=8")
			err := cmd.Run()
			killed := false
			if ee, ok := err.(*exec.ExitError); ok {
				if ws, ok := ee.Sys().(syscall.WaitStatus); ok && ws.Signaled() && ws.Signal() == syscall.SIGKILL {
					killed = true
				}
			}
			if !killed {
				r.Count("real-kill-child-did-not-reach-the-crash-point", 1)
			} else {
				r.Count("real-kill-cross-validated", 1)
				kd, e := canon.FileRW(drive.DBFileOf(kdir+"/db"), canon.Ledger)
				if e != nil || !canon.Equal(kd, ledger) {
					r.Violate(core.Violation{Key: key, Signature: "C02:harness:image-differs-from-real-sigkill", Desc: fmt.Sprintf("the file image taken at %s differs from what a really killed process leaves behind", img.desc), Detail: joinDiff(ledger, kd)})
				}
			}
			os.RemoveAll(kdir)
		}
		if len(r.Samples) < 4 {
			r.Sample(map[string]interface{}{"crash_point": key, "op": img.desc, "recorded_synced": synced, "tx_had_writes": img.dirty})
		}
		os.RemoveAll(img.dir)
		if nodeDir != "" {
			os.RemoveAll(nodeDir)
		}
	}
}

// c02FailAt runs the daemon from the state before block img.height and makes operation number img.op of that
// block fail once with SQLITE_BUSY; the run continues (a fresh node on a copy of the files if the daemon exits)
// to three blocks past the failed one.
func c02FailAt(r *core.Result, cov Coverage, b *drive.Builder, D map[uint32]canon.Dump, startDir string, img *c02Image, key, scratch string) {
	cov.Era.Apply()
	fdir := fmt.Sprintf("%s/fail-%d-%d", scratch, img.height, img.op)
	defer os.RemoveAll(fdir)
	if err := drive.CopyDB(startDir+"/db", fdir+"/db"); err != nil {
		panic("harness: " + err.Error())
	}
	target := img.height + 3
	if target > b.Chain.Tip() {
		target = b.Chain.Tip()
	}
	n, fired := 0, false
	site := "?"
	committed := img.height - 1
	hooks := &sqlw.Hooks{WantCaller: true,
		Before: func(o *sqlw.Op) error {
			if o.Kind == "begin" {
				n = 0
			}
			n++
			if !fired && committed+1 == img.height && n == img.op {
				fired = true
				site = siteOf(o.Stack)
				return sqlite3.Error{Code: sqlite3.ErrBusy}
			}
			return nil
		},
		After: func(o *sqlw.Op, err error) {
			if o.Kind == "commit" && err == nil {
				committed++
			}
		},
	}
	path := fdir + "/db"
	var out drive.Outcome
	for attempt := 0; attempt < 3; attempt++ {
		d, err := drive.Open(path, fake.NewNode(b.Chain), hooks, false)
		if err != nil {
			r.Violate(core.Violation{Key: key + "/fails", Signature: "C02:" + cov.Name + ":restart-refused-after-failed-block:" + errClass(err.Error()), Desc: "fresh node refuses the database after a failed block: " + err.Error(), Detail: []string{img.desc}})
			return
		}
		out = d.SyncTo(target, drive.SyncOpts{FaultPending: func() bool { return !fired }})
		d.Close()
		if !out.Died {
			break
		}
		// the daemon chose to exit: restart on a copy (the dead incarnation's connections still hold locks in this process)
		np := fmt.Sprintf("%s/r%d/db", fdir, attempt)
		if err := drive.CopyDB(path, np); err != nil {
			panic("harness: " + err.Error())
		}
		path = np
		committed = SyncedOf(drive.DBFileOf(path))
	}
	r.Outcome("block-failure:" + outcomeClass(out))
	if !out.Reached {
		r.Violate(core.Violation{Key: key + "/fails", Signature: "C02:" + cov.Name + ":failed-block-not-recovered:" + outcomeClass(out), Desc: fmt.Sprintf("after %s of block %d failed once the daemon does not reach height %d: %s", img.desc, img.height, target, out.String()), Detail: []string{img.desc}})
		return
	}
	all, err := canon.FileRW(drive.DBFileOf(path), canon.All)
	if err != nil {
		panic("harness: " + err.Error())
	}
	ledger := canon.Dump{}
	seen := map[uint32]int{}
	for t, rows := range all {
		if t != "pn_sync_version" {
			ledger[t] = rows
			continue
		}
		for _, row := range rows {
			var h uint32
			var v int
			fmt.Sscanf(row, "height=%d version=%d", &h, &v)
			if v != -1 {
				seen[h]++
			}
		}
	}
	for h := cov.Era.Base + 1; h <= target; h++ {
		if seen[h] != 1 {
			r.Violate(core.Violation{Key: key + "/fails", Signature: "C02:" + cov.Name + ":height-not-applied-exactly-once-after-failed-block", Desc: fmt.Sprintf("after %s of block %d failed once, height %d has %d version rows (synced %d)", img.desc, img.height, h, seen[h], target), Detail: []string{img.desc}})
			return
		}
	}
	if !canon.Equal(D[target], ledger) {
		r.Violate(core.Violation{Key: key + "/fails", Signature: "C02:ledger-differs-after-failed-statement:" + site,
			Desc: fmt.Sprintf("chain %s: after %s (call site %s) of block %d failed once, the ledger at height %d differs from the uninterrupted run (tables %s)", cov.Name, img.desc, site, img.height, target, strings.Join(canon.TablesDiffering(D[target], ledger), "+")), Detail: joinDiff(D[target], ledger)})
	}
}

// c02FailRequests: the daemon starts from the state before block h; one upstream request of that block (every request that is
// not an entry fetch, and the first, second and last entry fetch) fails once with a transport error. The block must fail as a
// whole and be retried: three blocks later every height is applied exactly once and the ledger equals the uninterrupted one.
func c02FailRequests(c *core.Ctx, r *core.Result, cov Coverage, b *drive.Builder, D map[uint32]canon.Dump, startDir string, h uint32, reqs []fake.Req, name, scratch string) {
	var entries []int
	var pick []int
	for i, rq := range reqs {
		if rq.Kind == "entry" {
			entries = append(entries, i)
		} else {
			pick = append(pick, i)
		}
	}
	for j, i := range entries {
		if j < 2 || j == len(entries)-1 {
			pick = append(pick, i)
		}
	}
	for _, i := range pick {
		rq := reqs[i]
		key := fmt.Sprintf("%s/h%d/request-fails/%s#%d", name, h, rq.Kind, i)
		if !c.Want(key) {
			continue
		}
		if c.Expired() {
			return
		}
		cov.Era.Apply()
		fdir := fmt.Sprintf("%s/reqfail-%d-%d", scratch, h, i)
		if err := drive.CopyDB(startDir+"/db", fdir+"/db"); err != nil {
			panic("harness: " + err.Error())
		}
		target := h + 3
		if target > b.Chain.Tip() {
			target = b.Chain.Tip()
		}
		fired := false
		site := "request:" + rq.Kind
		d, err := drive.Open(fdir+"/db", fake.NewNode(b.Chain), nil, false)
		if err != nil {
			panic("harness: " + err.Error())
		}
		out := d.SyncTo(target, drive.SyncOpts{FaultPending: func() bool { return !fired },
			OnRequest: func(q fake.Req) fake.FaultKind {
				if !fired && q.Method == rq.Method && q.Key == rq.Key {
					fired = true
					site = siteOf(sqlw.CallerStack()) + "/upstream"
					return fake.FaultTransport
				}
				return fake.NoFault
			}})
		d.Close()
		if fired {
			r.Count("upstream-failures-injected", 1)
		}
		r.Outcome("request-failure:" + outcomeClass(out))
		if !out.Reached {
			r.Violate(core.Violation{Key: key, Signature: "C02:" + cov.Name + ":block-not-recovered-after-failed-request:" + rq.Kind + ":" + outcomeClass(out), Desc: fmt.Sprintf("after one failed %s request of block %d the daemon does not reach height %d: %s", rq.Kind, h, target, out.String())})
		} else {
			c02CheckAfterFailure(r, cov, D, fdir+"/db", target, key, fmt.Sprintf("one %s request of block %d failed once", rq.Kind, h), site)
		}
		os.RemoveAll(fdir)
	}
}

// c02CheckAfterFailure: every height up to target applied exactly once, ledger equal to the uninterrupted run's.
func c02CheckAfterFailure(r *core.Result, cov Coverage, D map[uint32]canon.Dump, path string, target uint32, key, what, site string) {
	all, err := canon.FileRW(drive.DBFileOf(path), canon.All)
	if err != nil {
		panic("harness: " + err.Error())
	}
	ledger := canon.Dump{}
	seen := map[uint32]int{}
	for t, rows := range all {
		if t != "pn_sync_version" {
			ledger[t] = rows
			continue
		}
		for _, row := range rows {
			var h uint32
			var v int
			fmt.Sscanf(row, "height=%d version=%d", &h, &v)
			if v != -1 {
				seen[h]++
			}
		}
	}
	for h := cov.Era.Base + 1; h <= target; h++ {
		if seen[h] != 1 {
			r.Violate(core.Violation{Key: key, Signature: "C02:" + cov.Name + ":height-not-applied-exactly-once-after-failed-block", Desc: fmt.Sprintf("after %s, height %d has %d version rows (synced %d)", what, h, seen[h], target)})
			return
		}
	}
	if !canon.Equal(D[target], ledger) {
		r.Violate(core.Violation{Key: key, Signature: "C02:ledger-differs-after-failed-statement:" + site,
			Desc: fmt.Sprintf("chain %s: after %s, the ledger at height %d differs from the uninterrupted run (tables %s)", cov.Name, what, target, strings.Join(canon.TablesDiffering(D[target], ledger), "+")), Detail: joinDiff(D[target], ledger)})
	}
}

func parseSynced(row string) uint32 {
	i := strings.Index(row, "value=x'")
	if i < 0 {
		return 0
	}
	hexs := row[i+8:]
	if j := strings.IndexByte(hexs, '\''); j >= 0 {
		hexs = hexs[:j]
	}
	var raw []byte
	fmt.Sscanf(hexs, "%x", &raw)
	var v uint32
	fmt.Sscanf(string(raw), `{"Synced":%d}`, &v)
	return v
}

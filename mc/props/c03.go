package props

import (
	"math/big"
	"encoding/hex"
	"fmt"
	"sort"
	"strings"

	"github.com/Factom-Asset-Tokens/factom"

	"pegverif/core"
	"pegverif/drive"
	"pegverif/fake"
	"pegverif/kit"
)

// C03 No overdraft; batches are all-or-nothing.
func init() {
	core.Register(&core.Prop{
		ID: "C03", Level: "exploration",
		Rule: "address D holds exactly 10 pUSD, 4 pEUR and 6 PEG (in base units, and in a second variant x1e8); every batch of length 1..L over a 12-letter transaction alphabet (transfer of balance-1 / balance / balance+1, two-output transfer, self-transfer, burn-address transfer, pUSD->pEUR, pEUR->pUSD, pUSD->PEG, transfers of pEUR / PEG beyond the held amount that only an earlier in-batch conversion can fund, transfer of 5 of the 6 PEG so that two of them only fit with an in-batch PEG credit) is signed as one entry and applied by the real pipeline in 5 eras; oracle: no balance negative; final balances of ALL addresses equal either the chain without the entry (rejected) or the full sequential reference effect (applied), nothing in between; applied only if the sequential running balance never goes negative, in-batch credits counted once they have happened. Non-trivial = distinct (era, scale, batch) with at least one transaction the address can afford alone",
		Assumptions: []string{"reference conversion amounts use the recorded rates of the executing block (C12) and the unambiguous averaging window", "conversions into PEG in the bank eras are requested far below the bank, so the yield is the full amount and the refund zero"},
		Run:         runC03,
	})
}

const KD = 7

type c03Letter struct {
	name string
	mk   func(D factom.FAAddress, s uint64, burn factom.FAAddress) kit.Tx
}

func c03Alphabet() []c03Letter {
	B := AddrB
	return []c03Letter{
		{"x9", func(D factom.FAAddress, s uint64, _ factom.FAAddress) kit.Tx { return kit.Transfer(D, "pUSD", 9*s, B) }},
		{"x10", func(D factom.FAAddress, s uint64, _ factom.FAAddress) kit.Tx { return kit.Transfer(D, "pUSD", 10*s, B) }},
		{"x11", func(D factom.FAAddress, s uint64, _ factom.FAAddress) kit.Tx { return kit.Transfer(D, "pUSD", 10*s+1, B) }},
		{"x2out", func(D factom.FAAddress, s uint64, _ factom.FAAddress) kit.Tx {
			return kit.Tx{From: D, Asset: "pUSD", Amount: 6 * s, To: []kit.Out{{Addr: B, Amount: 4 * s}, {Addr: AddrC, Amount: 2 * s}}}
		}},
		{"x3rep", func(D factom.FAAddress, s uint64, _ factom.FAAddress) kit.Tx {
			// the same recipient named twice with different amounts, and the sender itself as one of the outputs
			return kit.Tx{From: D, Asset: "pUSD", Amount: 8 * s, To: []kit.Out{{Addr: B, Amount: 4 * s}, {Addr: AddrC, Amount: s}, {Addr: B, Amount: 2 * s}, {Addr: D, Amount: s}}}
		}},
		{"zeroout", func(D factom.FAAddress, s uint64, _ factom.FAAddress) kit.Tx {
			// zero-amount outputs before, between and after the outputs that carry the funds
			return kit.Tx{From: D, Asset: "pUSD", Amount: 5 * s, To: []kit.Out{{Addr: B, Amount: 0}, {Addr: AddrC, Amount: 3 * s}, {Addr: D, Amount: 0}, {Addr: B, Amount: 2 * s}, {Addr: AddrC, Amount: 0}}}
		}},
		{"self", func(D factom.FAAddress, s uint64, _ factom.FAAddress) kit.Tx { return kit.Transfer(D, "pUSD", 10*s, D) }},
		{"burn", func(D factom.FAAddress, s uint64, burn factom.FAAddress) kit.Tx { return kit.Transfer(D, "pUSD", 3*s, burn) }},
		{"burnmix", func(D factom.FAAddress, s uint64, burn factom.FAAddress) kit.Tx {
			// special recipients in the middle of ordinary ones: the burn address (and the all-zero address) first, then B and C
			return kit.Tx{From: D, Asset: "pUSD", Amount: 7 * s, To: []kit.Out{{Addr: B, Amount: s}, {Addr: burn, Amount: s}, {Addr: AddrC, Amount: 2 * s}, {Addr: OldBurn(), Amount: s}, {Addr: B, Amount: 2 * s}}}
		}},
		{"usd>eur", func(D factom.FAAddress, s uint64, _ factom.FAAddress) kit.Tx { return kit.Conversion(D, "pUSD", 6*s, "pEUR") }},
		{"eur>usd", func(D factom.FAAddress, s uint64, _ factom.FAAddress) kit.Tx { return kit.Conversion(D, "pEUR", 4*s, "pUSD") }},
		{"usd>peg", func(D factom.FAAddress, s uint64, _ factom.FAAddress) kit.Tx { return kit.Conversion(D, "pUSD", 5*s, "PEG") }},
		{"xeur7", func(D factom.FAAddress, s uint64, _ factom.FAAddress) kit.Tx { return kit.Transfer(D, "pEUR", 7*s, B) }},
		{"xpeg8", func(D factom.FAAddress, s uint64, _ factom.FAAddress) kit.Tx { return kit.Transfer(D, "PEG", 8*s, B) }},
		{"wrap", func(D factom.FAAddress, s uint64, _ factom.FAAddress) kit.Tx {
			// outputs sum to 2^64 + input: equal to the input only in wrapping 64-bit arithmetic
			return kit.Tx{From: D, Asset: "pUSD", Amount: 10 * s, To: []kit.Out{{Addr: B, Amount: 1<<63 - 1}, {Addr: AddrC, Amount: 1<<63 - 1}, {Addr: B, Amount: 10*s + 2}}}
		}},
		{"xpeg5", func(D factom.FAAddress, s uint64, _ factom.FAAddress) kit.Tx { return kit.Transfer(D, "PEG", 5*s, B) }},
	}
}

func runC03(c *core.Ctx, r *core.Result) {
	stages := []int{drive.StPegPrice, drive.StBank, drive.StV4, drive.StV202, drive.StPIP10}
	alpha := c03Alphabet()
	idx := 0
	for ei, st := range stages {
		era := drive.EraStage(st)
		for _, scale := range []uint64{1, 1e8} {
			maxLen := 2
			if c.Thorough() || (ei == 1 && scale == 1) || (ei == 4 && scale == 1e8) {
				maxLen = 3
			}
			var w *World
			var base *LedgerView
			D := kit.Addr(KD)
			var names []string
			for i := range alpha {
				names = append(names, fmt.Sprint(i))
			}
			for _, sq := range seqs(names, maxLen) {
				idx++
				if !c.Mine(idx) && c.Only == "" {
					continue
				}
				var letters []c03Letter
				var ln []string
				for _, s := range sq {
					var i int
					fmt.Sscan(s, &i)
					letters = append(letters, alpha[i])
					ln = append(ln, alpha[i].name)
				}
				key := fmt.Sprintf("%s/x%d/%s", era.Name, scale, strings.Join(ln, ","))
				if !c.Want(key) {
					continue
				}
				if c.Expired() {
					r.Capped("deadline before " + key)
					if w != nil {
						w.Close()
					}
					return
				}
				if w == nil {
					w = MustWorld(era, func(b *drive.Builder) {
						FundStd(b)
						b.Add(drive.BlockSpec{Rates: R1(), OPRPayTo: kit.AddrStr(KM), TX: []fake.Entry{
							b.Tx(KA, kit.Transfer(AddrA, "pUSD", 10*scale, D), kit.Transfer(AddrA, "pEUR", 4*scale, D), kit.Transfer(AddrA, "PEG", 6*scale, D)),
						}})
						b.Add(drive.BlockSpec{Rates: R1(), OPRPayTo: kit.AddrStr(KM)})
					})
					base = c03Apply(w, nil)
					if base == nil {
						panic("harness: C03 baseline chain does not sync")
					}
				}
				c03One(c, r, w, era, base, scale, letters, key)
			}
			if w != nil {
				w.Close()
			}
		}
	}
}

// c03Apply runs prefix + [entry?] + G(R2) + G(R1) and returns the resulting view (nil if not synced).
func c03Apply(w *World, e *fake.Entry) *LedgerView {
	run := w.Fork()
	defer run.Close()
	b := run.B
	s := drive.BlockSpec{Rates: R1(), OPRPayTo: kit.AddrStr(KM)}
	if e != nil {
		s.TX = []fake.Entry{*e}
	}
	b.Add(s)
	b.Add(drive.BlockSpec{Rates: R2(), OPRPayTo: kit.AddrStr(KM)})
	b.Add(drive.BlockSpec{Rates: R1(), OPRPayTo: kit.AddrStr(KM)})
	if out := run.Sync(); !out.Reached {
		return nil
	}
	run.D.Close()
	run.D = nil
	v, err := ReadLedger(drive.DBFileOf(run.DBPath))
	if err != nil {
		panic(err)
	}
	return v
}

func c03One(c *core.Ctx, r *core.Result, w *World, era drive.Era, base *LedgerView, scale uint64, letters []c03Letter, key string) {
	r.Eval()
	D := kit.Addr(KD)
	burn := GlobalBurn()
	var txs []kit.Tx
	hasConv := false
	for _, l := range letters {
		t := l.mk(D, scale, burn)
		txs = append(txs, t)
		if t.Conv != "" {
			hasConv = true
		}
	}
	bld := w.B.Fork()
	entry := bld.Tx(KD, txs...)
	got := c03Apply(w, &entry)
	if got == nil {
		r.Count("inconclusive-block-not-applied", 1) // liveness is C08's
		return
	}
	// (1) non-negativity: balances are read as unsigned; the CHECK constraint and the unsigned scan would have failed the read otherwise
	// heights
	hEntry := w.B.Next()
	hExec := hEntry
	if hasConv {
		hExec = hEntry + 1
	}
	spot := got.Rates[hExec]
	conv := func(amount uint64, from, to string) (int64, bool) {
		src, dst := spot[from], spot[to]
		if src == 0 || dst == 0 {
			return 0, false
		}
		if hExec >= era.PIP10 {
			win := got.AvgWindows(got.LastRatedBefore(hExec), era.AvgPeriod)[0]
			sa, da := got.AvgOver(from, win, era.AvgPeriod/2), got.AvgOver(to, win, era.AvgPeriod/2)
			if sa == 0 || da == 0 {
				return 0, false
			}
			src, dst = minU(src, sa), maxU(dst, da)
		}
		return RefConvert(int64(amount), src, dst)
	}
	// sequential reference effect on all addresses
	delta := map[string]map[string]int64{}
	add := func(a factom.FAAddress, asset string, v int64) {
		k := hex.EncodeToString(a[:])
		if delta[k] == nil {
			delta[k] = map[string]int64{}
		}
		delta[k][asset] += v
	}
	running := map[string]int64{}
	for a, v := range base.Balances[hex.EncodeToString(D[:])] {
		running[a] = int64(v)
	}
	// "base" is the chain without the entry at the same tip; D's balances there equal D's balances when the entry executes (nobody else pays D)
	overdraft := false
	malformed := false // a transfer whose outputs do not sum to its input in exact arithmetic spends more than it debits
	for _, t := range txs {
		if t.Conv == "" {
			sum := new(big.Int)
			for _, o := range t.To {
				sum.Add(sum, new(big.Int).SetUint64(o.Amount))
			}
			if sum.Cmp(new(big.Int).SetUint64(t.Amount)) != 0 {
				malformed = true
			}
		}
	}
	affordableAlone := false
	deferred := map[string]int64{}
	unconvertible := false
	bankEra := hExec >= era.ConvLimit && hExec < era.V20
	for _, t := range txs {
		if int64(t.Amount) <= int64(base.Bal(D, t.Asset)) {
			affordableAlone = true
		}
		if running[t.Asset] < int64(t.Amount) {
			overdraft = true
		}
		running[t.Asset] -= int64(t.Amount)
		add(D, t.Asset, -int64(t.Amount))
		if t.Conv != "" {
			out, ok := conv(t.Amount, t.Asset, t.Conv)
			if !ok {
				unconvertible = true
				continue
			}
			if t.Conv == "PEG" && bankEra {
				deferred["PEG"] += out // credited after the whole batch
			} else {
				running[t.Conv] += out
			}
			add(D, t.Conv, out)
		} else {
			for _, o := range t.To {
				if (o.Addr == burn && hExec >= era.V202) || (o.Addr == OldBurn() && hExec < era.V202) {
					continue // destroyed (before 2.0.2 the all-zero address plays that role)
				}
				if o.Addr == D {
					running[t.Asset] += int64(o.Amount)
				}
				add(o.Addr, t.Asset, int64(o.Amount))
			}
		}
	}
	_ = deferred
	// classify the observed outcome
	equal := func(exp func(addr, asset string) int64) (bool, []string) {
		var diffs []string
		addrs := map[string]bool{}
		for a := range base.Balances {
			addrs[a] = true
		}
		for a := range got.Balances {
			addrs[a] = true
		}
		for a := range delta {
			addrs[a] = true
		}
		var al []string
		for a := range addrs {
			al = append(al, a)
		}
		sort.Strings(al)
		for _, a := range al {
			assets := map[string]bool{}
			for x := range base.Balances[a] {
				assets[x] = true
			}
			for x := range got.Balances[a] {
				assets[x] = true
			}
			for x := range delta[a] {
				assets[x] = true
			}
			for x := range assets {
				if e := exp(a, x); e != int64(got.Balances[a][x]) {
					diffs = append(diffs, fmt.Sprintf("%s %s: expected %d got %d", a[:8], x, e, got.Balances[a][x]))
				}
			}
		}
		sort.Strings(diffs)
		return len(diffs) == 0, diffs
	}
	isRejected, dRej := equal(func(a, x string) int64 { return int64(base.Balances[a][x]) })
	isApplied, dApp := equal(func(a, x string) int64 { return int64(base.Balances[a][x]) + delta[a][x] })
	if affordableAlone {
		r.NonTrivial(key)
	}
	switch {
	case malformed && !isRejected:
		r.Outcome("malformed-had-effect")
		if len(dRej) > 6 {
			dRej = dRej[:6]
		}
		r.Violate(core.Violation{Key: key, Signature: "C03:batch-with-outputs-exceeding-its-input-had-an-effect:" + era.Name,
			Desc: fmt.Sprintf("batch %v holds a transfer whose outputs do not sum to its input (in exact arithmetic), yet balances changed", txs), Detail: dRej})
	case malformed:
		r.Outcome("malformed-inert")
	case isRejected && isApplied:
		r.Outcome("no-net-effect")
	case isRejected:
		r.Outcome("rejected")
	case isApplied:
		r.Outcome("applied")
		if overdraft {
			r.Violate(core.Violation{Key: key, Signature: "C03:overdraft:batch-applied-although-running-balance-goes-negative:" + era.Name,
				Desc: fmt.Sprintf("batch %v was applied in full although the input address cannot afford it sequentially", txs)})
		}
		if unconvertible {
			r.Note("batch with an unconvertible conversion classified as applied: %s", key)
		}
	default:
		if len(dRej) > 6 {
			dRej = dRej[:6]
		}
		if len(dApp) > 6 {
			dApp = dApp[:6]
		}
		cls := "neither-applied-nor-rejected"
		// shape of the discrepancy against the full effect
		convDst := map[string]bool{}
		for _, t := range txs {
			if t.Conv != "" && t.Conv != "PEG" {
				convDst[t.Conv] = true
			}
		}
		shape := "excess-credit-of-converted-asset"
		for _, d := range dApp {
			var a8, asset string
			var e, g int64
			if n, _ := fmt.Sscanf(d, "%s %s expected %d got %d", &a8, &asset, &e, &g); n != 4 || g <= e || !convDst[strings.TrimSuffix(asset, ":")] || a8 != hex.EncodeToString(D[:])[:8] {
				shape = "other"
			}
		}
		r.Violate(core.Violation{Key: key, Signature: "C03:" + cls + ":" + era.Name + ":" + c03Shape(txs, bankEra) + ":" + shape,
			Desc:   fmt.Sprintf("batch %v left balances that are neither those of the chain without it nor its full effect", txs),
			Detail: append(append([]string{"vs rejected:"}, dRej...), append([]string{"vs applied:"}, dApp...)...)})
	}
	if len(r.Samples) < 4 {
		r.Sample(map[string]interface{}{"scenario": key, "batch": fmt.Sprint(txs), "sequentially_affordable": !overdraft})
	}
}

// c03Shape describes a batch coarsely for signatures.
func c03Shape(txs []kit.Tx, bankEra bool) string {
	peg, conv, xfer := 0, 0, 0
	for _, t := range txs {
		switch {
		case t.Conv == "PEG":
			peg++
		case t.Conv != "":
			conv++
		default:
			xfer++
		}
	}
	s := fmt.Sprintf("pegreq=%d,conv=%d,xfer=%d", peg, conv, xfer)
	if bankEra {
		s = "bank:" + s
	}
	return s
}

package props

import (
	"bytes"
	"encoding/json"
	"fmt"
	"math/big"
	"regexp"
	"strings"

	"github.com/Factom-Asset-Tokens/factom"
	"github.com/pegnet/pegnetd/cmd"
	"github.com/pegnet/pegnetd/fat/fat2"

	"pegverif/core"
	"pegverif/drive"
	"pegverif/fake"
	"pegverif/kit"
)

// C20 Canonical encoding and exact amounts at the edges.
func init() {
	core.Register(&core.Prop{
		ID: "C20", Level: "exploration",
		Rule: "(a) batch content: bounded grammar enumeration (member sequences of length <= 3 at batch, transaction, input and transfer level over {each known key, its duplicate, a case variant, an unknown key}; value alphabets for version, amounts {0,1,2^63-1,2^63,2^64-1,2^64,-1,1.0,1e2,\"1\"}, tickers, addresses; whitespace at every token gap) plus every single-byte insertion / deletion / substitution from `{}[]\":,01a \\` at every offset of canonical batches; each string signed so that only the content decides; oracle: accepted by the real parser => accepted by an independent strict recogniser of the canonical language, and Marshal(accepted) decodes to equal transactions. (b) decimal amounts: every string up to the length bound over `0159.-+e ` plus boundary whole parts x fractions; oracle: exact big-rational value*1e8 or an error. Non-trivial = distinct strings the parser accepts or that differ from a canonical string in one token",
		Assumptions: []string{"a key that case-folds to a known key is not counted as unknown (encoding/json matches keys case-insensitively); the recogniser never demands more than the property lists"},
		Run:         runC20,
	})
}

// ---------------------------------------------------------------- strict recogniser

type jnode struct {
	kind    byte // o a s n t(true/false) z(null)
	members []jmember
	elems   []*jnode
	str     string
	num     string
}

type jmember struct {
	key string
	val *jnode
}

func jparse(data []byte) (*jnode, error) {
	dec := json.NewDecoder(bytes.NewReader(data))
	dec.UseNumber()
	n, err := jvalue(dec)
	if err != nil {
		return nil, err
	}
	if _, err := dec.Token(); err == nil {
		return nil, fmt.Errorf("trailing data")
	}
	return n, nil
}

func jvalue(dec *json.Decoder) (*jnode, error) {
	tok, err := dec.Token()
	if err != nil {
		return nil, err
	}
	switch t := tok.(type) {
	case json.Delim:
		switch t {
		case '{':
			n := &jnode{kind: 'o'}
			for dec.More() {
				kt, err := dec.Token()
				if err != nil {
					return nil, err
				}
				k, ok := kt.(string)
				if !ok {
					return nil, fmt.Errorf("bad key")
				}
				v, err := jvalue(dec)
				if err != nil {
					return nil, err
				}
				n.members = append(n.members, jmember{k, v})
			}
			if _, err := dec.Token(); err != nil {
				return nil, err
			}
			return n, nil
		case '[':
			n := &jnode{kind: 'a'}
			for dec.More() {
				v, err := jvalue(dec)
				if err != nil {
					return nil, err
				}
				n.elems = append(n.elems, v)
			}
			if _, err := dec.Token(); err != nil {
				return nil, err
			}
			return n, nil
		}
		return nil, fmt.Errorf("unexpected delimiter")
	case string:
		return &jnode{kind: 's', str: t}, nil
	case json.Number:
		return &jnode{kind: 'n', num: string(t)}, nil
	case bool:
		return &jnode{kind: 't'}, nil
	case nil:
		return &jnode{kind: 'z'}, nil
	}
	return nil, fmt.Errorf("unexpected token")
}

// members checks: only allowed keys (case-insensitively), none twice.
func (n *jnode) object(allowed ...string) (map[string]*jnode, error) {
	if n.kind != 'o' {
		return nil, fmt.Errorf("not an object")
	}
	out := map[string]*jnode{}
	for _, m := range n.members {
		lk := strings.ToLower(m.key)
		ok := false
		for _, a := range allowed {
			if a == lk {
				ok = true
			}
		}
		if !ok {
			return nil, fmt.Errorf("unknown key %q", m.key)
		}
		if _, dup := out[lk]; dup {
			return nil, fmt.Errorf("duplicate key %q", m.key)
		}
		out[lk] = m.val
	}
	return out, nil
}

var maxInt64 = new(big.Int).SetUint64(1<<63 - 1)

func jAmount(n *jnode) (*big.Int, error) {
	if n != nil && n.kind == 'z' {
		// JSON null decodes to amount 0: the property's list of what makes a batch
		// non-canonical does not mention it, so the recogniser does not either
		return new(big.Int), nil
	}
	if n == nil || n.kind != 'n' {
		return nil, fmt.Errorf("amount is not a number")
	}
	v, ok := new(big.Int).SetString(n.num, 10)
	if !ok || v.Sign() < 0 {
		return nil, fmt.Errorf("amount is not a non-negative integer")
	}
	return v, nil
}

// the protocol's asset list, spelled exactly; kept here so that the recogniser does not consult the parser's own table
var c20Tickers = func() map[string]bool {
	m := map[string]bool{}
	for _, t := range strings.Fields(`PEG pUSD pEUR pJPY pGBP pCAD pCHF pINR pSGD pCNY pHKD pKRW pBRL pPHP pMXN pXAU pXAG pXBT pETH pLTC pRVN pXBC pFCT pBNB pXLM pADA pXMR pDASH pZEC pDCR
		pAUD pNZD pSEK pNOK pRUB pZAR pTRY pEOS pLINK pATOM pBAT pXTZ pHBAR pNEO pCRO pETC pONT pDOGE pVET pHT pALGO pDGB pAED pARS pTWD pRWF pKES pUGX pTZS pBIF pETB pNGN`) {
		m[t] = true
	}
	return m
}()

func jTicker(n *jnode) (string, error) {
	if n == nil || n.kind != 's' {
		return "", fmt.Errorf("ticker is not a string")
	}
	if !c20Tickers[n.str] {
		return "", fmt.Errorf("unknown ticker %q", n.str)
	}
	return n.str, nil
}

func jAddress(n *jnode) (string, error) {
	if n == nil || n.kind != 's' {
		return "", fmt.Errorf("address is not a string")
	}
	if _, err := factom.NewFAAddress(n.str); err != nil {
		return "", err
	}
	return n.str, nil
}

// canonicalBatch is the independent recogniser of exactly what the property lists.
func canonicalBatch(content []byte) error {
	_, err := canonicalBatchTxs(content)
	return err
}

// canonicalBatchTxs also returns what the content says, one line per transaction, read off the independent parse.
func canonicalBatchTxs(content []byte) (said []string, reterr error) {
	defer func() {
		if reterr != nil {
			said = nil
		}
	}()
	return canonicalBatchWalk(content, &said)
}

func canonicalBatchWalk(content []byte, said *[]string) ([]string, error) {
	err := canonicalBatchInner(content, said)
	return *said, err
}

// jEscapedOutsideMetadata reports whether a string token (a key or a value) outside the free-form "metadata" values is
// spelled with a backslash escape: keys and tickers have exactly one canonical spelling.
func jEscapedOutsideMetadata(content []byte) bool {
	type frame struct {
		obj      bool
		key      string
		wantKey  bool
		metaHere bool // this container IS a metadata value (or lies inside one)
	}
	var st []frame
	inMeta := func() bool { return len(st) > 0 && st[len(st)-1].metaHere }
	i := 0
	for i < len(content) {
		c := content[i]
		switch {
		case c == '{' || c == '[':
			meta := inMeta()
			if len(st) > 0 && st[len(st)-1].obj && st[len(st)-1].key == "metadata" {
				meta = true
			}
			st = append(st, frame{obj: c == '{', wantKey: c == '{', metaHere: meta})
			i++
		case c == '}' || c == ']':
			if len(st) > 0 {
				st = st[:len(st)-1]
			}
			if len(st) > 0 && st[len(st)-1].obj {
				st[len(st)-1].wantKey = true
			}
			i++
		case c == ',':
			if len(st) > 0 && st[len(st)-1].obj {
				st[len(st)-1].wantKey = true
			}
			i++
		case c == ':':
			i++
		case c == '"':
			j := i + 1
			esc := false
			for j < len(content) && content[j] != '"' {
				if content[j] == '\\' {
					esc = true
					j++
				}
				j++
			}
			end := j
			if end > len(content) {
				end = len(content)
			}
			raw := string(content[i+1 : end])
			isKey := len(st) > 0 && st[len(st)-1].obj && st[len(st)-1].wantKey
			valueOfMeta := !isKey && len(st) > 0 && st[len(st)-1].obj && st[len(st)-1].key == "metadata"
			// (an address spelled with escapes decodes to the same address and is accepted by the pinned tree; the property's
			// list of what is not canonical names keys and tickers, not addresses: left out)
			valueOfAddress := !isKey && len(st) > 0 && st[len(st)-1].obj && st[len(st)-1].key == "address"
			if esc && !inMeta() && !valueOfMeta && !valueOfAddress {
				return true
			}
			if isKey {
				st[len(st)-1].key = raw
				st[len(st)-1].wantKey = false
			}
			i = j + 1
		default:
			i++
		}
	}
	return false
}

func canonicalBatchInner(content []byte, said *[]string) error {
	root, err := jparse(content)
	if err != nil {
		return err
	}
	if jEscapedOutsideMetadata(content) {
		return fmt.Errorf("a key or ticker is spelled with an escape sequence")
	}
	top, err := root.object("version", "transactions", "metadata")
	if err != nil {
		return err
	}
	if top["version"] == nil || top["transactions"] == nil {
		return fmt.Errorf("missing version/transactions")
	}
	if top["transactions"].kind != 'a' || len(top["transactions"].elems) == 0 {
		return fmt.Errorf("transactions must be a non-empty array")
	}
	inputs := map[string]bool{}
	for i, txn := range top["transactions"].elems {
		tx, err := txn.object("input", "transfers", "conversion", "metadata")
		if err != nil {
			return fmt.Errorf("tx %d: %v", i, err)
		}
		if tx["input"] == nil {
			return fmt.Errorf("tx %d: no input", i)
		}
		in, err := tx["input"].object("address", "amount", "type")
		if err != nil {
			return fmt.Errorf("tx %d input: %v", i, err)
		}
		addr, err := jAddress(in["address"])
		if err != nil {
			return fmt.Errorf("tx %d input: %v", i, err)
		}
		inputs[addr] = true
		amt, err := jAmount(in["amount"])
		if err != nil {
			return fmt.Errorf("tx %d input: %v", i, err)
		}
		if amt.Cmp(maxInt64) > 0 {
			return fmt.Errorf("tx %d input amount exceeds int64", i)
		}
		ityp, err := jTicker(in["type"])
		if err != nil {
			return fmt.Errorf("tx %d input: %v", i, err)
		}
		line := fmt.Sprintf("%s %s %s", addr, amt, ityp)
		// "exactly one of transfers or conversion": a key that is present counts, whatever its value
		// (an empty or null transfers list next to a conversion is still both)
		hasT := tx["transfers"] != nil
		hasC := tx["conversion"] != nil
		if hasT == hasC {
			return fmt.Errorf("tx %d: exactly one of transfers / conversion required", i)
		}
		if hasC {
			to, err := jTicker(tx["conversion"])
			if err != nil {
				return fmt.Errorf("tx %d conversion: %v", i, err)
			}
			line += " => " + to
		} else {
			if tx["transfers"].kind != 'a' {
				return fmt.Errorf("tx %d: transfers is not an array", i)
			}
			for j, tn := range tx["transfers"].elems {
				tr, err := tn.object("address", "amount")
				if err != nil {
					return fmt.Errorf("tx %d transfer %d: %v", i, j, err)
				}
				oaddr, err := jAddress(tr["address"])
				if err != nil {
					return fmt.Errorf("tx %d transfer %d: %v", i, j, err)
				}
				a, err := jAmount(tr["amount"])
				if err == nil {
					line += fmt.Sprintf(" -> %s %s", oaddr, a)
				}
				if err != nil {
					return fmt.Errorf("tx %d transfer %d: %v", i, j, err)
				}
				if a.Cmp(maxInt64) > 0 {
					return fmt.Errorf("tx %d transfer %d amount exceeds int64", i, j)
				}
			}
		}
		*said = append(*said, line)
	}
	if len(inputs) != 1 {
		return fmt.Errorf("more than one input address")
	}
	return nil
}

// c20Decoded renders the parser's result the same way.
func c20Decoded(tb *fat2.TransactionBatch) []string {
	var out []string
	for _, x := range tb.Transactions {
		line := fmt.Sprintf("%s %d %s", x.Input.Address.String(), x.Input.Amount, x.Input.Type.String())
		if x.Conversion != fat2.PTickerInvalid {
			line += " => " + x.Conversion.String()
		}
		for _, o := range x.Transfers {
			line += fmt.Sprintf(" -> %s %d", o.Address.String(), o.Amount)
		}
		out = append(out, line)
	}
	return out
}

// ---------------------------------------------------------------- generators

var c20Amounts = []string{"0", "1", "7", "9223372036854775807", "9223372036854775808", "18446744073709551615", "18446744073709551616", "-1", "1.0", "1e2", `"1"`, "01", "null"}

func seqs(opts []string, maxLen int) [][]string {
	var out [][]string
	var rec func(cur []string)
	rec = func(cur []string) {
		if len(cur) > 0 {
			out = append(out, append([]string{}, cur...))
		}
		if len(cur) == maxLen {
			return
		}
		for _, o := range opts {
			rec(append(cur, o))
		}
	}
	rec(nil)
	return out
}

func c20Grammar(thorough bool) []string {
	A, B := AddrA.String(), AddrB.String()
	in := `{"address":"` + A + `","amount":7,"type":"pUSD"}`
	trs := `[{"address":"` + B + `","amount":7}]`
	tx := `{"input":` + in + `,"transfers":` + trs + `}`
	txc := `{"input":` + in + `,"conversion":"pEUR"}`
	var out []string
	obj := func(members []string) string { return "{" + strings.Join(members, ",") + "}" }
	maxLen := 3
	// batch level
	for _, v := range []string{"1", "0", "2", `"1"`, "1.0", "null", "1e0", "-1"} {
		bopts := []string{`"version":` + v, `"transactions":[` + tx + `]`, `"metadata":{"a":1}`, `"Version":` + v, `"TRANSACTIONS":[` + txc + `]`, `"foo":1`, `"metadata":null`}
		if v != "1" {
			bopts = bopts[:2]
		}
		for _, s := range seqs(bopts, maxLen) {
			out = append(out, obj(s))
		}
	}
	wrap := func(t string) string { return `{"version":1,"transactions":[` + t + `]}` }
	// transaction level
	topts := []string{`"input":` + in, `"transfers":` + trs, `"conversion":"pEUR"`, `"metadata":[1,2]`, `"Input":` + in, `"bar":null`, `"transfers":[]`, `"conversion":""`, `"transfers":null`, `"conversion":null`}
	for _, s := range seqs(topts, maxLen) {
		out = append(out, wrap(obj(s)))
		if thorough {
			out = append(out, wrap(tx+","+obj(s)))
		}
	}
	// two transactions: second with another input address
	in2 := `{"address":"` + B + `","amount":7,"type":"pUSD"}`
	out = append(out, wrap(tx+`,{"input":`+in2+`,"conversion":"pEUR"}`), wrap(tx+","+txc), wrap(txc+","+tx))
	// input level: member sequences
	iopts := []string{`"address":"` + A + `"`, `"amount":7`, `"type":"pUSD"`, `"Amount":7`, `"type":"pEUR"`, `"x":1`}
	il := 4
	for _, s := range seqs(iopts, il) {
		out = append(out, wrap(`{"input":`+obj(s)+`,"transfers":`+trs+`}`))
	}
	// input level: values
	types := []string{`"pUSD"`, `"PEG"`, `"pXXX"`, `"pusd"`, `""`, `pUSD`, `1`, `null`, `"\"pUSD\""`, `"pUSD"`, `" pUSD"`, `"USD"`}
	addrs := []string{`"` + A + `"`, `"` + A[:50] + `"`, `""`, `null`, `1`, `"` + strings.ToLower(A) + `"`, `"FA1zT4aFpEvcnPqPCigB3fvGu4Q4mTXY22iiuV69DqE1pNhdF2MC"`}
	for _, am := range c20Amounts {
		for _, ty := range types {
			for _, ad := range addrs {
				i2 := `{"address":` + ad + `,"amount":` + am + `,"type":` + ty + `}`
				out = append(out, wrap(`{"input":`+i2+`,"conversion":"pEUR"}`))
				out = append(out, wrap(`{"input":`+i2+`,"transfers":[{"address":"`+B+`","amount":`+am+`}]}`))
			}
		}
	}
	// conversion values
	for _, ty := range types {
		out = append(out, wrap(`{"input":`+in+`,"conversion":`+ty+`}`))
	}
	// transfer level
	ropts := []string{`"address":"` + B + `"`, `"amount":7`, `"amount":3`, `"amount":4`, `"Address":"` + B + `"`, `"y":0`}
	for _, s := range seqs(ropts, 3) {
		out = append(out, wrap(`{"input":`+in+`,"transfers":[`+obj(s)+`]}`))
		out = append(out, wrap(`{"input":`+in+`,"transfers":[{"address":"`+A+`","amount":3},`+obj(s)+`]}`))
	}
	for _, am := range c20Amounts {
		for _, am2 := range c20Amounts {
			out = append(out, wrap(`{"input":{"address":"`+A+`","amount":`+am+`,"type":"pUSD"},"transfers":[{"address":"`+B+`","amount":`+am2+`}]}`))
			out = append(out, wrap(`{"input":{"address":"`+A+`","amount":`+am+`,"type":"pUSD"},"transfers":[{"address":"`+B+`","amount":`+am2+`},{"address":"`+A+`","amount":1}]}`))
		}
	}
	return out
}

func c20Canonical() []string {
	A, B := AddrA, AddrB
	return []string{
		string(kit.BatchJSON(kit.Transfer(A, "pUSD", 7, B))),
		string(kit.BatchJSON(kit.Conversion(A, "pUSD", 7, "pEUR"))),
		string(kit.BatchJSON(kit.Tx{From: A, Asset: "PEG", Amount: 10, To: []kit.Out{{B, 4}, {A, 6}}}, kit.Conversion(A, "pXBT", 1, "pUSD"))),
		`{"version":1,"transactions":[{"input":{"address":"` + A.String() + `","amount":7,"type":"pUSD"},"conversion":"pEUR","metadata":{"m":[1,"x"]}}],"metadata":"memo"}`,
		`{"version":1,"transactions":[{"input":{"address":"` + A.String() + `","amount":9223372036854775807,"type":"pFCT"},"transfers":[{"address":"` + B.String() + `","amount":9223372036854775807}]}]}`,
		`{"version":1,"transactions":[{"input":{"address":"` + A.String() + `","amount":0,"type":"pUSD"},"transfers":[{"address":"` + B.String() + `","amount":0}]}]}`,
		// several transactions of different shapes in every order: each decoded on its own
		string(kit.BatchJSON(kit.Conversion(A, "pXBT", 1, "pUSD"), kit.Tx{From: A, Asset: "PEG", Amount: 10, To: []kit.Out{{B, 4}, {A, 6}}})),
		string(kit.BatchJSON(kit.Transfer(A, "pUSD", 7, B), kit.Transfer(A, "pEUR", 8, A), kit.Transfer(A, "pUSD", 9, B))),
		string(kit.BatchJSON(kit.Tx{From: A, Asset: "PEG", Amount: 10, To: []kit.Out{{B, 4}, {A, 6}}}, kit.Transfer(A, "pEUR", 8, A), kit.Conversion(A, "pXBT", 1, "pUSD"), kit.Conversion(A, "pXBT", 2, "pEUR"))),
		string(kit.BatchJSON(kit.Transfer(A, "pUSD", 7, B), kit.Tx{From: A, Asset: "pUSD", Amount: 0})),
		// equal amounts to different recipients: a decoder that shares storage between transactions still passes the sum rules
		string(kit.BatchJSON(kit.Transfer(A, "pUSD", 7, B), kit.Transfer(A, "pUSD", 7, A))),
		string(kit.BatchJSON(kit.Tx{From: A, Asset: "PEG", Amount: 10, To: []kit.Out{{B, 4}, {A, 6}}}, kit.Tx{From: A, Asset: "PEG", Amount: 10, To: []kit.Out{{A, 4}, {B, 6}}}, kit.Tx{From: A, Asset: "pEUR", Amount: 10, To: []kit.Out{{B, 10}}})),
	}
}

func c20Mutations(canon []string, n int) []string {
	alpha := []byte("{}[]\":,01a \\")
	var out []string
	for _, c := range canon[:n] {
		b := []byte(c)
		for off := 0; off <= len(b); off++ {
			for _, ch := range alpha {
				ins := append(append(append([]byte{}, b[:off]...), ch), b[off:]...)
				out = append(out, string(ins))
				if off < len(b) && b[off] != ch {
					sub := append([]byte{}, b...)
					sub[off] = ch
					out = append(out, string(sub))
				}
			}
			if off < len(b) {
				del := append(append([]byte{}, b[:off]...), b[off+1:]...)
				out = append(out, string(del))
			}
		}
	}
	return out
}

// c20Escapes: every character of every string token of the canonical batches replaced, one at a time, by its \u00XX escape
// (keys, tickers, addresses, metadata strings alike).
func c20Escapes(canon []string) []string {
	var out []string
	for _, c := range canon {
		b := []byte(c)
		inStr := false
		for i := 0; i < len(b); i++ {
			if b[i] == '"' {
				inStr = !inStr
				continue
			}
			if inStr && b[i] != '\\' && b[i] < 0x80 {
				out = append(out, string(b[:i])+fmt.Sprintf("\\u%04x", b[i])+string(b[i+1:]))
			}
		}
	}
	return out
}

func c20Whitespace(canon []string) []string {
	var out []string
	for _, c := range canon {
		b := []byte(c)
		inStr := false
		for i := 0; i <= len(b); i++ {
			if i < len(b) && b[i] == '"' {
				inStr = !inStr
			}
			if inStr && i < len(b) && b[i] != '"' {
				continue
			}
			for _, ws := range []string{" ", "\n", "\t\r", " ", "\v"} {
				out = append(out, string(b[:i])+ws+string(b[i:]))
			}
		}
	}
	return out
}

// ---------------------------------------------------------------- driver

func runC20(c *core.Ctx, r *core.Result) {
	drive.Setup()
	chain := drive.IDs.TX
	// (a)
	var strs []string
	strs = append(strs, c20Grammar(c.Thorough())...)
	nm := 3
	if c.Thorough() {
		nm = 6
	}
	strs = append(strs, c20Mutations(c20Canonical(), nm)...)
	strs = append(strs, c20Whitespace(c20Canonical())...)
	strs = append(strs, c20Escapes(c20Canonical()[:nm+1])...)
	accepted := 0
	for i, s := range strs {
		if !c.Mine(i) && c.Only == "" {
			continue
		}
		key := "batch/" + s
		if !c.Want(key) {
			continue
		}
		r.Eval()
		e := kit.SignContent(chain, []byte(s), 1600000000, kit.Key(KA))
		fe := toEntry(chain, e, 1600000000)
		tb, err := fat2.NewTransactionBatch(fe, -1)
		if err != nil {
			r.Outcome("batch:rejected")
			continue
		}
		accepted++
		r.Outcome("batch:accepted")
		r.NonTrivial(key)
		if len(r.Samples) < 3 {
			r.Sample(map[string]string{"accepted_content": s})
		}
		said, cerr := canonicalBatchTxs([]byte(s))
		if cerr == nil && strings.Join(said, "\n") != strings.Join(c20Decoded(tb), "\n") {
			r.Violate(core.Violation{Key: key, Signature: "C20:decoded-batch-is-not-what-the-content-says", Desc: "the parser's transactions differ from what the canonical content says",
				Detail: append(append([]string{s, "content says:"}, said...), append([]string{"parser decoded:"}, c20Decoded(tb)...)...)})
			continue
		}
		if cerr != nil {
			r.Violate(core.Violation{Key: key, Signature: "C20:batch-accepted-but-not-canonical:" + errClass(strings.SplitN(cerr.Error(), ":", 2)[0]+c20Tail(cerr.Error())),
				Desc: "the parser accepts a batch that the canonical language excludes: " + cerr.Error(), Detail: []string{s}})
			continue
		}
		// round trip
		re, err := json.Marshal(tb)
		if err != nil {
			r.Violate(core.Violation{Key: key, Signature: "C20:accepted-batch-cannot-be-re-encoded", Desc: err.Error(), Detail: []string{s}})
			continue
		}
		e2 := kit.SignContent(chain, re, 1600000000, kit.Key(KA))
		tb2, err := fat2.NewTransactionBatch(toEntry(chain, e2, 1600000000), -1)
		if err != nil {
			r.Violate(core.Violation{Key: key, Signature: "C20:re-encoded-batch-rejected", Desc: "Marshal(accepted batch) is not accepted: " + err.Error(), Detail: []string{s, string(re)}})
			continue
		}
		if !c20SameTxs(tb, tb2) {
			r.Violate(core.Violation{Key: key, Signature: "C20:re-encoded-batch-decodes-differently", Desc: "Marshal(accepted batch) decodes to different transactions", Detail: []string{s, string(re)}})
		}
	}
	r.Count("batch-strings-accepted", accepted)

	// (b) decimal amounts
	maxLen := 6
	if c.Thorough() {
		maxLen = 7
	}
	alpha := []byte("0159.-+e ")
	idx := 0
	var rec func(cur []byte)
	check := func(s string) {
		idx++
		if !c.Mine(idx) && c.Only == "" {
			return
		}
		key := "amount/" + s
		if !c.Want(key) {
			return
		}
		r.Eval()
		got, err := cmd.FactoidToFactoshi(s)
		want, ok := c20Exact(s)
		if err != nil {
			r.Outcome("amount:rejected")
			return
		}
		r.Outcome("amount:accepted")
		r.NonTrivial(key)
		if !ok {
			cls := "not-a-decimal-numeral"
			if decimalRe.MatchString(s) {
				cls = "value-not-representable"
			}
			r.Violate(core.Violation{Key: key, Signature: "C20:amount-accepted:" + cls, Desc: fmt.Sprintf("FactoidToFactoshi(%q) = %d with nil error, but the string has no exact base-unit value in uint64", s, got)})
			return
		}
		if want.Cmp(new(big.Int).SetUint64(got)) != 0 {
			r.Violate(core.Violation{Key: key, Signature: "C20:amount-silently-altered", Desc: fmt.Sprintf("FactoidToFactoshi(%q) = %d, exact value is %s", s, got, want)})
		}
	}
	rec = func(cur []byte) {
		check(string(cur))
		if len(cur) == maxLen {
			return
		}
		for _, ch := range alpha {
			rec(append(cur, ch))
		}
	}
	rec(nil)
	// boundary whole parts x fractions
	wholes := []string{"92233720368", "92233720369", "184467440737", "184467440738", "9223372036854775807", "9223372036854775808", "18446744073709551615", "18446744073709551616", "100000000000000000000", "0", "", "00000000000000000000001"}
	var fracs []string
	for l := 0; l <= 9; l++ {
		for _, s := range seqs([]string{"0", "1", "9"}, l) {
			if len(s) == l {
				fracs = append(fracs, strings.Join(s, ""))
			}
		}
	}
	fracs = append(fracs, "")
	for _, w := range wholes {
		check(w)
		for _, f := range fracs {
			if c.Expired() {
				r.Capped("deadline in amount boundaries")
				return
			}
			check(w + "." + f)
		}
	}
}

var decimalRe = regexp.MustCompile(`^[0-9]*(\.[0-9]+)?$`)

// c20Exact returns value*1e8 for a lenient decimal numeral `digits? ("." digits)?`
// (empty string = 0) if it is an integer that fits uint64.
func c20Exact(s string) (*big.Int, bool) {
	if !decimalRe.MatchString(s) {
		return nil, false
	}
	whole, frac := s, ""
	if i := strings.IndexByte(s, '.'); i >= 0 {
		whole, frac = s[:i], s[i+1:]
	}
	if whole == "" {
		whole = "0"
	}
	w, _ := new(big.Int).SetString(whole, 10)
	v := new(big.Int).Mul(w, big.NewInt(1e8))
	if frac != "" {
		f, _ := new(big.Int).SetString(frac, 10)
		// frac / 10^len * 1e8 must be an integer
		num := new(big.Int).Mul(f, big.NewInt(1e8))
		den := new(big.Int).Exp(big.NewInt(10), big.NewInt(int64(len(frac))), nil)
		q, m := new(big.Int).QuoRem(num, den, new(big.Int))
		if m.Sign() != 0 {
			return nil, false
		}
		v.Add(v, q)
	}
	if !v.IsUint64() {
		return nil, false
	}
	return v, true
}

func c20Tail(s string) string {
	if i := strings.LastIndex(s, ": "); i >= 0 {
		s = s[i+2:]
	}
	if j := strings.IndexByte(s, '"'); j >= 0 {
		s = s[:j]
	}
	return ":" + strings.TrimSpace(s)
}

func c20SameTxs(a, b *fat2.TransactionBatch) bool {
	if len(a.Transactions) != len(b.Transactions) {
		return false
	}
	for i := range a.Transactions {
		x, y := a.Transactions[i], b.Transactions[i]
		if x.Input != y.Input || x.Conversion != y.Conversion || len(x.Transfers) != len(y.Transfers) {
			return false
		}
		for j := range x.Transfers {
			if x.Transfers[j] != y.Transfers[j] {
				return false
			}
		}
	}
	return true
}

func toEntry(chain factom.Bytes32, e fake.Entry, unix int64) factom.Entry {
	var fe factom.Entry
	cc := chain
	fe.ChainID = &cc
	for _, x := range e.ExtIDs {
		fe.ExtIDs = append(fe.ExtIDs, factom.Bytes(x))
	}
	fe.Content = factom.Bytes(e.Content)
	h := fake.EntryHash(chain, e)
	fe.Hash = &h
	fe.Timestamp = timeUnix(unix)
	return fe
}

package drive

import (
	"reflect"
	"sort"
	"strings"
	"sync"
	"unsafe"

	"github.com/pegnet/pegnetd/verifglob"
)

// Package-level variables of the pegnetd packages are part of a process' state: a memo table, a sync.Once, a list
// rewritten in place. A restart (a new process) starts from their initial values; a clone of a running node carries
// them along. The generated registry (globgen, injected with -overlay) gives their addresses; the harness
//   - takes a pristine copy once, before any node has run (Setup),
//   - puts the pristine values back whenever a node is STARTED (Open = restart),
//   - makes them part of NodeState (Snapshot / Restore), so that cloned states do not leak into each other.
// Left alone: what the harness itself configures (activation heights and the other settings of Era.Apply, the mint address
// a scenario may override), and variables that are handles rather than data (loggers, compiled expressions, functions):
// pointers, interfaces, functions and channels whose target is not a pegnetd type.

var globDeny = map[string]bool{
	"node.AveragePeriod": true, "node.AverageRequired": true, "node.GlobalMintAddress": true,
	"node/pegnet.Hardforks": true, "node/pegnet.PegnetdSyncVersion": true, "fat/fat2.Fat2RCDEActivation": true,
}

type globVar struct {
	name string
	ptr  reflect.Value // pointer to the variable
}

var (
	globOnce     sync.Once
	globVars     []globVar
	globPristine GlobalState
)

// GlobalState is a detached copy of the tracked package-level variables.
type GlobalState map[string]reflect.Value

func globIsData(t reflect.Type) bool {
	switch t.Kind() {
	case reflect.Func, reflect.Chan, reflect.UnsafePointer:
		return false
	case reflect.Ptr:
		return strings.HasPrefix(t.Elem().PkgPath(), "github.com/pegnet/pegnetd")
	case reflect.Interface:
		return false
	}
	return true
}

func globInit() {
	globOnce.Do(func() {
		var pkgs []string
		for p := range verifglob.All {
			pkgs = append(pkgs, p)
		}
		sort.Strings(pkgs)
		for _, p := range pkgs {
			for _, g := range verifglob.All[p] {
				name := p + "." + g.Name
				v := reflect.ValueOf(g.Ptr)
				if globDeny[name] || v.Kind() != reflect.Ptr || !globIsData(v.Type().Elem()) {
					continue
				}
				globVars = append(globVars, globVar{name, v})
			}
		}
		globPristine = GlobalsSnapshot()
	})
}

// GlobalsTracked lists the tracked variables.
func GlobalsTracked() []string {
	globInit()
	var out []string
	for _, g := range globVars {
		out = append(out, g.name)
	}
	return out
}

// GlobalsSnapshot copies the tracked variables.
func GlobalsSnapshot() GlobalState {
	s := GlobalState{}
	for _, g := range globVars {
		func() {
			defer func() { recover() }() // a variable that cannot be copied is left out
			c := reflect.New(g.ptr.Type().Elem())
			deepCopy(c.Elem(), g.ptr.Elem(), map[unsafe.Pointer]reflect.Value{})
			s[g.name] = c
		}()
	}
	return s
}

// GlobalsRestore puts copies of the values of s back.
func GlobalsRestore(s GlobalState) {
	if s == nil {
		return
	}
	for _, g := range globVars {
		c, ok := s[g.name]
		if !ok {
			continue
		}
		func() {
			defer func() { recover() }()
			fresh := reflect.New(g.ptr.Type().Elem())
			deepCopy(fresh.Elem(), c.Elem(), map[unsafe.Pointer]reflect.Value{})
			g.ptr.Elem().Set(fresh.Elem())
		}()
	}
}

// GlobalsPristine puts the initial values back (what a new process starts with).
func GlobalsPristine() {
	globInit()
	GlobalsRestore(globPristine)
}

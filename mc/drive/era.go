package drive

import (
	"github.com/pegnet/pegnetd/config"
	"github.com/pegnet/pegnetd/fat/fat2"
	"github.com/pegnet/pegnetd/node"
	"github.com/pegnet/pegnetd/node/pegnet"
)

// Never is an activation height that is never reached (fits in int32: the code casts heights).
const Never uint32 = 1 << 30

// Era is an assignment of every consensus activation height. All values are
// absolute heights.
type Era struct {
	Name string

	Base uint32 // PegnetActivation: first synced height is Base+1

	GradingV2, TxConv, PEGPricing, OneWayFCT, ConvLimit, FreeFloat uint32
	RCDe, V4, V20, DevRewards, SprSig, OneWaySmall, V202, V204    uint32
	V204Burn, PIP10                                                uint32

	AvgPeriod   uint64 // 0 => 288
	AvgRequired uint64 // 0 => AvgPeriod/2

	Hardforks   []pegnet.ForkEvent // nil => only {0,-1}
	SyncVersion int                // 0 => 2 (the value in the tree); use SetSyncVersion to express 0
	syncVerSet  bool
}

// WithSyncVersion returns a copy whose PegnetdSyncVersion is v (v may be 0).
func (e Era) WithSyncVersion(v int) Era { e.SyncVersion = v; e.syncVerSet = true; return e }

var defaultSyncVersion = pegnet.PegnetdSyncVersion

// Apply assigns the package-level variables. Process-global: one era at a time per process.
func (e Era) Apply() {
	// the tracked chains are process-global too: put them back, whatever an earlier execution did to them
	config.OPRChain, config.SPRChain, config.TransactionChain = IDs.OPR, IDs.SPR, IDs.TX
	config.PegnetActivation = e.Base
	config.GradingV2Activation = e.GradingV2
	config.TransactionConversionActivation = e.TxConv
	config.PEGPricingActivation = e.PEGPricing
	config.OneWaypFCTConversions = e.OneWayFCT
	config.PegnetConversionLimitActivation = e.ConvLimit
	config.PEGFreeFloatingPriceActivation = e.FreeFloat
	fat2.Fat2RCDEActivation = e.RCDe
	config.V4OPRUpdate = e.V4
	config.V20HeightActivation = e.V20
	config.V20DevRewardsHeightActivation = e.DevRewards
	config.SprSignatureActivation = e.SprSig
	config.OneWaySmallAssetsConversions = e.OneWaySmall
	config.V202EnhanceActivation = e.V202
	config.V204EnhanceActivation = e.V204
	config.V204BurnMintedTokenActivation = e.V204Burn
	config.PIP10AverageActivation = e.PIP10
	p := e.AvgPeriod
	if p == 0 {
		p = 288
	}
	node.AveragePeriod = p
	r := e.AvgRequired
	if r == 0 {
		r = p / 2
	}
	node.AverageRequired = r
	if e.Hardforks == nil {
		pegnet.Hardforks = []pegnet.ForkEvent{{ActivationHeight: 0, MinimumVersion: -1}}
	} else {
		pegnet.Hardforks = e.Hardforks
	}
	if e.syncVerSet || e.SyncVersion != 0 {
		pegnet.PegnetdSyncVersion = e.SyncVersion
	} else {
		pegnet.PegnetdSyncVersion = defaultSyncVersion
	}
}

// Base used by all compressed eras: a multiple of 144 well above 62 so that
// height arithmetic (height-j mock txids, averaging window floor) behaves as on mainnet.
const B uint32 = 288 // 2*144

// All returns an era in which every activation listed in `on` is active from
// Base (height 0) and all others never.
func eraAllNever(name string) Era {
	return Era{Name: name, Base: B,
		GradingV2: Never, TxConv: Never, PEGPricing: Never, OneWayFCT: Never, ConvLimit: Never, FreeFloat: Never,
		RCDe: Never, V4: Never, V20: Never, DevRewards: Never, SprSig: Never, OneWaySmall: Never, V202: Never, V204: Never,
		V204Burn: Never, PIP10: Never, AvgPeriod: 4}
}

// Interior eras (everything up to and including the named stage active from the start).
// Mainnet order: v2 grading, tx, PEG pricing, one-way pFCT, conv limit + free float (v3 grading),
// V4 (RCD-e, bank pooled), 2.0, dev rewards + SPR sig, 2.0.2 (+ one-way small), 2.0.4 mint, 2.0.4 burn, PIP10.
func EraStage(stage int) Era {
	names := []string{"v1", "v2", "tx", "pegprice", "onewayfct", "bank", "v4", "v20", "v20dev", "v202", "v204", "v204burn", "pip10"}
	e := eraAllNever(names[stage])
	set := func(p *uint32) { *p = 0 }
	if stage >= 1 {
		set(&e.GradingV2)
	}
	if stage >= 2 {
		set(&e.TxConv)
	}
	if stage >= 3 {
		set(&e.PEGPricing)
	}
	if stage >= 4 {
		set(&e.OneWayFCT)
	}
	if stage >= 5 {
		set(&e.ConvLimit)
		set(&e.FreeFloat)
	}
	if stage >= 6 {
		set(&e.V4)
		set(&e.RCDe)
	}
	if stage >= 7 {
		set(&e.V20)
	}
	if stage >= 8 {
		set(&e.DevRewards)
		set(&e.SprSig)
	}
	if stage >= 9 {
		set(&e.V202)
		set(&e.OneWaySmall)
	}
	if stage >= 10 {
		set(&e.V204)
	}
	if stage >= 11 {
		set(&e.V204Burn)
	}
	if stage >= 12 {
		set(&e.PIP10)
	}
	return e
}

const (
	StV1 = iota
	StV2
	StTx
	StPegPrice
	StOneWayFCT
	StBank
	StV4
	StV20
	StV20Dev
	StV202
	StV204
	StV204Burn
	StPIP10
)

// OPRVersion mirrors the era's grading version ladder for height h (used by the
// chain builder to produce records of the version the daemon will expect).
func (e Era) OPRVersion(h uint32) uint8 {
	v := uint8(1)
	if h >= e.GradingV2 {
		v = 2
	}
	if h >= e.FreeFloat {
		v = 3
	}
	if h >= e.V4 {
		v = 4
	}
	if h >= e.V20 {
		v = 5
	}
	return v
}

// SPRVersion mirrors the SPR version ladder.
func (e Era) SPRVersion(h uint32) uint8 {
	v := uint8(5)
	if h >= e.SprSig {
		v = 6
	}
	if h >= e.V202 {
		v = 7
	}
	return v
}

package drive

import (
	"fmt"

	"github.com/Factom-Asset-Tokens/factom"
	"github.com/pegnet/pegnet/modules/grader"
	"github.com/pegnet/pegnetd/config"

	"pegverif/fake"
	"pegverif/kit"
)

// Chain ids used by every scenario (the real mainnet ids).
var IDs = fake.ChainIDs{
	OPR: factom.NewBytes32("a642a8674f46696cc47fdb6b65f9c87b2a19c5ea8123b3d2f0c13b6f33a9d5ef"),
	SPR: factom.NewBytes32("d5e395125335a21cef0ceca528168e87fe929fdac1f156870c1b1be6502448b4"),
	TX:  factom.NewBytes32("cffce0f409ebba4ed236d49d89c70e4bd1f1367d86402a3363366683265a242d"),
}

func init() {
	config.OPRChain, config.SPRChain, config.TransactionChain = IDs.OPR, IDs.SPR, IDs.TX
}

// T0Min is the dblock timestamp (minutes) of height Base in every scenario: 2020-09-13 12:26:40 UTC rounded.
const T0Min uint32 = 1600000000 / 60

// Builder appends blocks to a fake chain, tracking what the daemon will hold as
// "previous winners" by running the grader *library* on the same entries.
type Builder struct {
	Era   Era
	Chain *fake.Chain
	Prev  []string // previous winners as the daemon will see them for the next block
}

func NewBuilder(e Era) *Builder {
	Setup()
	return &Builder{Era: e, Chain: fake.NewChain(IDs, e.Base, T0Min)}
}

// Fork returns a builder continuing an independent copy of the chain.
func (b *Builder) Fork() *Builder {
	return &Builder{Era: b.Era, Chain: b.Chain.Clone(), Prev: append([]string{}, b.Prev...)}
}

// Next is the height the next appended block will have.
func (b *Builder) Next() uint32 { return b.Chain.Tip() + 1 }

// Salt returns a valid timestamp salt for an entry in the next block.
func (b *Builder) Salt() int64 { return b.Chain.EntryUnix(b.Next(), 1) }

// BlockSpec is a symbolic block.
type BlockSpec struct {
	// Rates != nil: a graded block: NOPR valid OPRs (default 25; 10 for v1) quoting Rates.
	Rates kit.Rates
	NOPR  int
	// OPRPayTo: coinbase address of all generated OPRs (default kit.AddrStr(900+i) per record).
	OPRPayTo string
	// ExtraOPR are appended to the OPR chain after the generated ones.
	ExtraOPR []fake.Entry
	SPR      []fake.Entry
	TX       []fake.Entry
	Factoid  []fake.FTx
}

// Add appends the block and returns its height.
func (b *Builder) Add(s BlockSpec) uint32 {
	h := b.Next()
	ver := b.Era.OPRVersion(h)
	blk := &fake.Block{SPR: s.SPR, TX: s.TX, Factoid: s.Factoid}
	if s.Rates != nil {
		n := s.NOPR
		if n == 0 {
			n = 25
			if ver == 1 {
				n = 10
			}
		}
		prev := b.Prev
		if len(prev) == 0 {
			if ver == 1 {
				prev = make([]string, 10)
			} else {
				prev = make([]string, 25)
			}
		}
		pay := func(i int) string {
			if s.OPRPayTo != "" {
				return s.OPRPayTo
			}
			return kit.AddrStr(900 + i)
		}
		blk.OPR = append(blk.OPR, kit.GradedSet(ver, int32(h), prev, s.Rates, n, pay)...)
	}
	blk.OPR = append(blk.OPR, s.ExtraOPR...)
	if len(blk.OPR) > 0 {
		// mirror the daemon's bookkeeping of previous winners with the grader library
		g, err := grader.NewGrader(ver, int32(h), b.Prev)
		if err != nil {
			panic(fmt.Sprintf("builder: NewGrader: %v", err))
		}
		for _, e := range blk.OPR {
			eh := fake.EntryHash(b.Chain.IDs.OPR, e)
			g.AddOPR(eh[:], e.ExtIDs, e.Content)
		}
		b.Prev = g.Grade().WinnersShortHashes()
	}
	return b.Chain.Append(blk)
}

// AddEmpty appends n empty blocks.
func (b *Builder) AddEmpty(n int) {
	for i := 0; i < n; i++ {
		b.Chain.Append(&fake.Block{})
	}
}

// Tx signs a batch for the next block with key index k.
func (b *Builder) Tx(k int, txs ...kit.Tx) fake.Entry {
	return kit.SignBatch(b.Chain.IDs.TX, b.Salt(), kit.Key(k), txs...)
}

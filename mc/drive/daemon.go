// Package drive runs the real pegnetd node (node.NewPegnetd + DBlockSync) in
// process against the fake Factom node and the wrapping SQL driver.
package drive

import (
	"syscall"
	"github.com/Factom-Asset-Tokens/factom"
	"database/sql"
	"bytes"
	"runtime"
	"strconv"
	"context"
	"fmt"
	"io"
	"io/ioutil"
	"os"
	"path/filepath"
	"strings"
	"sync"
	"time"

	"github.com/pegnet/pegnet/modules/grader"
	"github.com/pegnet/pegnetd/config"
	"github.com/pegnet/pegnetd/fat/fat2"
	"github.com/pegnet/pegnetd/node"
	"github.com/pegnet/pegnetd/node/pegnet"
	"github.com/sirupsen/logrus"
	"github.com/spf13/viper"

	"pegverif/fake"
	"pegverif/sqlw"
)

// ---------------------------------------------------------------- process-wide setup

type logCapture struct {
	mu      sync.Mutex
	entries []LogLine
	dropped int
	on      bool
}

type LogLine struct {
	Level  string
	Msg    string
	Err    string
	Height uint32
}

func (l *logCapture) Levels() []logrus.Level {
	return []logrus.Level{logrus.ErrorLevel, logrus.FatalLevel, logrus.PanicLevel, logrus.WarnLevel}
}

func (l *logCapture) Fire(e *logrus.Entry) error {
	l.mu.Lock()
	defer l.mu.Unlock()
	if !l.on {
		return nil
	}
	ll := LogLine{Level: e.Level.String(), Msg: e.Message}
	if v, ok := e.Data["error"]; ok {
		ll.Err = fmt.Sprint(v)
	}
	if v, ok := e.Data["height"]; ok {
		switch x := v.(type) {
		case uint32:
			ll.Height = x
		case int:
			ll.Height = uint32(x)
		}
	}
	l.entries = append(l.entries, ll)
	if len(l.entries) > 20000 {
		// a spinning daemon must not exhaust memory: keep the most recent lines
		l.entries = append(l.entries[:0:0], l.entries[10000:]...)
		l.dropped += 10000
	}
	return nil
}

var capture = &logCapture{}

type exitPanic struct{ code int }

var setupOnce sync.Once

// Setup prepares the process: tiny LXR table, logging to nowhere, Fatal -> panic.
func Setup() {
	setupOnce.Do(func() {
		os.Setenv("LXRBITSIZE", "8")
		grader.InitLX()
		logrus.SetOutput(ioutil.Discard)
		logrus.SetLevel(logrus.WarnLevel)
		logrus.AddHook(capture)
		logrus.StandardLogger().ExitFunc = func(code int) { panic(exitPanic{code}) }
	})
}

var (
	ecOnce sync.Once
	ecStr  string
)

// ecKey is an entry-credit secret for the node's configuration (send-transaction refuses to run without one).
func ecKey() string {
	ecOnce.Do(func() {
		es, err := factom.GenerateEsAddress()
		if err != nil {
			panic("harness: " + err.Error())
		}
		ecStr = es.String()
	})
	return ecStr
}

var stdoutOnce sync.Once

// SilenceStdout redirects fd 1 to /dev/null and returns a writer to the original stdout.
// pegnetd prints diagnostics with fmt.Println; worker processes must keep their stdout clean.
func SilenceStdout() io.Writer {
	orig := os.Stdout
	stdoutOnce.Do(func() {
		if null, err := os.OpenFile(os.DevNull, os.O_WRONLY, 0); err == nil {
			os.Stdout = null
		}
	})
	return orig
}

// ---------------------------------------------------------------- daemon

// Daemon is one running pegnetd node on one database file.
type Daemon struct {
	Path string // database path without the ".v4" suffix
	Node *node.Pegnetd
	DB   *sqlw.DB
	Fake *fake.Node

	WAL bool
}

// DBFile returns the SQLite file path.
func (d *Daemon) DBFile() string { return d.Path + ".v4" }

func DBFileOf(path string) string { return path + ".v4" }

// Open runs the real node.NewPegnetd on path (creating the database if needed),
// then swaps the sql.DB for a wrapped one with the same DSN.
// DisableHardForkCheck makes Open start the node with the operator's override of the hard-fork check (--no-hf).
var DisableHardForkCheck bool

func Open(path string, fk *fake.Node, hooks *sqlw.Hooks, wal bool) (*Daemon, error) {
	Setup()
	GlobalsPristine() // a node that is started is a new process: package-level state as at program start
	conf := viper.New()
	conf.Set(config.DisableHardForkCheck, DisableHardForkCheck)
	conf.Set(config.SqliteDBPath, path)
	conf.Set(config.DBlockSyncRetryPeriod, time.Duration(0))
	conf.Set(config.ECPrivateKey, ecKey())
	conf.Set(config.Network, "none")
	conf.Set(config.Server, "http://fake.invalid/v2")
	conf.Set(config.SQLDBWalMode, wal)
	n, err := node.NewPegnetd(context.Background(), conf)
	if err != nil {
		// A start-up that is refused returns no node, and the database handle it opened is lost (a real process exits at this
		// point). An explorer that runs tens of thousands of refused start-ups in one process would run out of file
		// descriptors: close the descriptors of this database file that nobody can reach any more.
		closeLeakedFDs(path + ".v4")
		return nil, err
	}
	n.Pegnet.DB.Close()
	db := sqlw.Open(connDSN(path, wal), hooks)
	checkConn(db, wal)
	n.Pegnet.DB = db.DB
	n.FactomClient.Factomd.Transport = fk
	return &Daemon{Path: path, Node: n, DB: db, Fake: fk, WAL: wal}, nil
}

// closeLeakedFDs closes every descriptor of this process that refers to the database file at prefix (or its journal files).
func closeLeakedFDs(prefix string) {
	ents, err := os.ReadDir("/proc/self/fd")
	if err != nil {
		return
	}
	for _, e := range ents {
		t, err := os.Readlink("/proc/self/fd/" + e.Name())
		if err != nil || !strings.HasPrefix(t, prefix) {
			continue
		}
		if fd, err := strconv.Atoi(e.Name()); err == nil {
			syscall.Close(fd)
		}
	}
}

// The wrapped connection must be configured like the one the code under test opens for itself (journal mode, synchronous,
// locking mode, cache size ...: they decide what a crash leaves behind and who blocks whom). The data source name is a local
// variable of pegnet.Init, so the settings are read back, once per process and mode, from a connection opened by the real
// pegnet.Init on a scratch file, and turned into the equivalent go-sqlite3 parameters.
var connPragmaNames = []string{"journal_mode", "synchronous", "locking_mode", "busy_timeout", "foreign_keys", "cache_size", "auto_vacuum", "secure_delete", "recursive_triggers", "cache_spill", "temp_store", "read_uncommitted", "query_only"}

var (
	connMu      sync.Mutex
	connLearned = map[bool]map[string]string{}
)

func readPragmas(q interface {
	QueryRow(string, ...interface{}) *sql.Row
}) map[string]string {
	out := map[string]string{}
	for _, nm := range connPragmaNames {
		var v sql.NullString
		if err := q.QueryRow("PRAGMA " + nm).Scan(&v); err == nil {
			out[nm] = strings.ToLower(v.String)
		}
	}
	return out
}

func connSettings(wal bool) map[string]string {
	connMu.Lock()
	defer connMu.Unlock()
	if m, ok := connLearned[wal]; ok {
		return m
	}
	dir := Scratch("dsn")
	defer os.RemoveAll(dir)
	conf := viper.New()
	conf.Set(config.SqliteDBPath, dir+"/db")
	conf.Set(config.SQLDBWalMode, wal)
	p := pegnet.New(conf)
	if err := p.Init(); err != nil {
		panic("harness: cannot learn the connection settings: " + err.Error())
	}
	m := readPragmas(p.DB)
	p.DB.Close()
	connLearned[wal] = m
	return m
}

func connDSN(path string, wal bool) string {
	m := connSettings(wal)
	return fmt.Sprintf("%s.v4?_journal=%s&_sync=%s&_locking=%s&_busy_timeout=%s&_fk=%s&_cache_size=%s&_auto_vacuum=%s&_secure_delete=%s&_recursive_triggers=%s&_query_only=%s",
		path, strings.ToUpper(m["journal_mode"]), m["synchronous"], strings.ToUpper(m["locking_mode"]), m["busy_timeout"], m["foreign_keys"], m["cache_size"], m["auto_vacuum"], m["secure_delete"], m["recursive_triggers"], m["query_only"])
}

// checkConn compares the settings of the wrapped connection with the learned ones.
func checkConn(db *sqlw.DB, wal bool) {
	want, got := connSettings(wal), readPragmas(db.DB)
	for _, nm := range connPragmaNames {
		w, okw := want[nm]
		g, okg := got[nm]
		if !okw || !okg {
			continue // the setting could not be read (e.g. a damaged file): what the node does with such a file is its behaviour
		}
		if w != g {
			panic(fmt.Sprintf("harness: the wrapped connection has PRAGMA %s = %q, the node's own connection %q", nm, got[nm], want[nm]))
		}
	}
}

// Continue builds a node on path WITHOUT running any start-up code (no table creation, no migrations, no
// hard-fork check): together with CacheRestore it is a clone of a node that keeps running, as opposed to Open,
// which is a restart. The in-memory sync height is the committed one, as in a running node.
func Continue(path string, fk *fake.Node, hooks *sqlw.Hooks, wal bool) (*Daemon, error) {
	Setup()
	conf := viper.New()
	conf.Set(config.SqliteDBPath, path)
	conf.Set(config.DBlockSyncRetryPeriod, time.Duration(0))
	conf.Set(config.ECPrivateKey, ecKey())
	conf.Set(config.Network, "none")
	conf.Set(config.Server, "http://fake.invalid/v2")
	conf.Set(config.SQLDBWalMode, wal)
	node.InitChainsFromConfig(conf)
	n := &node.Pegnetd{FactomClient: node.FactomClientFromConfig(conf), Config: conf, Pegnet: pegnet.New(conf)}
	db := sqlw.Open(connDSN(path, wal), nil)
	n.Pegnet.DB = db.DB
	sync, err := n.Pegnet.SelectSynced(context.Background(), n.Pegnet.DB)
	if err == sql.ErrNoRows {
		sync, err = &pegnet.BlockSync{Synced: config.PegnetActivation}, nil
	}
	if err != nil {
		db.Close()
		db.KillConns()
		return nil, err
	}
	n.Sync = sync
	if hooks != nil {
		db.SetHooks(hooks)
	}
	n.FactomClient.Factomd.Transport = fk
	return &Daemon{Path: path, Node: n, DB: db, Fake: fk, WAL: wal}, nil
}

// Close closes the database cleanly.
func (d *Daemon) Close() {
	if d.DB != nil {
		d.DB.Close()
		d.DB.KillConns()
	}
}

// Outcome of a sync attempt.
type Outcome struct {
	Synced  uint32
	Reached bool // reached the requested tip
	Wedged  bool // >= WedgeTries consecutive failed attempts at one height
	Died    bool // panic or log.Fatal
	DiedMsg string
	// WedgeHeight / LastErr describe the failing height.
	WedgeHeight uint32
	LastErr     string
	Failures    int // total failed attempts observed
	Logs        []LogLine
}

func (o Outcome) String() string {
	switch {
	case o.Died:
		return fmt.Sprintf("died@%d: %s", o.Synced+1, o.DiedMsg)
	case o.Wedged:
		return fmt.Sprintf("wedged@%d: %s", o.WedgeHeight, o.LastErr)
	case o.Reached:
		return fmt.Sprintf("ok@%d", o.Synced)
	}
	return fmt.Sprintf("stopped@%d", o.Synced)
}

// SyncOpts tune a SyncTo call.
type SyncOpts struct {
	// WedgeTries: consecutive failures at one height that count as a wedge (default 3).
	WedgeTries int
	// FaultPending reports whether an injected fault has not fired/cleared yet;
	// failures while it is true do not count towards a wedge.
	FaultPending func() bool
	// OnRequest is chained into the fake node (may inject faults).
	OnRequest func(r fake.Req) fake.FaultKind
	// MaxHeightsPolls bounds the run (safety horizon).
	MaxHeightsPolls int
}

// SyncTo runs the real DBlockSync until the node has synced `tip` (the fake
// reports tip as the network height), or wedges, or dies.
func (d *Daemon) SyncTo(tip uint32, o SyncOpts) Outcome {
	if o.WedgeTries == 0 {
		o.WedgeTries = 3
	}
	if o.MaxHeightsPolls == 0 {
		// the sync loop asks for the heights once per pass, and a pass ends at the tip or at the first failure:
		// a healthy run needs a handful of passes, a run with one injected fault one more
		o.MaxHeightsPolls = 3000
	}
	ctx, cancel := context.WithCancel(context.Background())
	defer cancel()

	capture.mu.Lock()
	capture.entries = nil
	capture.dropped = 0
	capture.on = true
	capture.mu.Unlock()
	defer func() {
		capture.mu.Lock()
		capture.on = false
		capture.mu.Unlock()
	}()

	var out Outcome
	seenLogs := 0
	lastFailHeight := uint32(0)
	consecutive := 0
	polls := 0

	d.Fake.SetTipFn(func() uint32 { return tip })
	syncGid := gid()
	d.Fake.SetOnRequest(func(r fake.Req) fake.FaultKind {
		fk := fake.NoFault
		if o.OnRequest != nil {
			fk = o.OnRequest(r)
		}
		// only the sync loop's own polls drive the run (API handlers also ask for heights)
		if r.Kind == "heights" && gid() == syncGid {
			polls++
			// account failures logged since the last poll
			capture.mu.Lock()
			from := seenLogs - capture.dropped
			if from < 0 {
				from = 0
			}
			newLogs := append([]LogLine(nil), capture.entries[from:]...)
			seenLogs = capture.dropped + len(capture.entries)
			capture.mu.Unlock()
			for _, l := range newLogs {
				if l.Level != "error" {
					continue
				}
				if isSyncFailure(l.Msg) {
					out.Failures++
					pending := o.FaultPending != nil && o.FaultPending()
					h := d.Node.Sync.Synced + 1
					if h == lastFailHeight && !pending {
						consecutive++
					} else if !pending {
						lastFailHeight, consecutive = h, 1
					}
					out.LastErr = l.Err
					if out.LastErr == "" {
						out.LastErr = l.Msg
					}
				}
			}
			if consecutive >= o.WedgeTries {
				out.Wedged = true
				out.WedgeHeight = lastFailHeight
				cancel()
			}
			if d.Node.Sync.Synced >= tip {
				out.Reached = true
				cancel()
			}
			if polls > o.MaxHeightsPolls {
				cancel()
			}
		}
		return fk
	})

	func() {
		defer func() {
			if r := recover(); r != nil {
				out.Died = true
				if ep, ok := r.(exitPanic); ok {
					out.DiedMsg = fmt.Sprintf("log.Fatal exit(%d)", ep.code)
					capture.mu.Lock()
					for i := len(capture.entries) - 1; i >= 0; i-- {
						if capture.entries[i].Level == "fatal" {
							out.DiedMsg += ": " + capture.entries[i].Msg + ": " + capture.entries[i].Err
							break
						}
					}
					capture.mu.Unlock()
				} else {
					out.DiedMsg = fmt.Sprintf("panic: %v", r)
				}
			}
		}()
		d.Node.DBlockSync(ctx)
	}()
	d.Fake.SetOnRequest(nil)
	out.Synced = d.Node.Sync.Synced
	capture.mu.Lock()
	out.Logs = append(out.Logs, capture.entries...)
	capture.mu.Unlock()
	if out.Died {
		// the block's sql.Tx is still open and holds the write lock: release it the way process death would
		d.DB.KillConns()
	}
	return out
}

func isSyncFailure(msg string) bool {
	return strings.HasPrefix(msg, "failed to sync height") ||
		strings.HasPrefix(msg, "unable to update synced metadata") ||
		strings.HasPrefix(msg, "unable to commit transaction") ||
		strings.HasPrefix(msg, "failed to start transaction")
}

// ---------------------------------------------------------------- files

// Scratch returns a fresh directory on /dev/shm (or $TMPDIR).
func Scratch(prefix string) string {
	base := "/dev/shm"
	if st, err := os.Stat(base); err != nil || !st.IsDir() {
		base = os.TempDir()
	}
	// workers of one check share a root that the parent removes when they are gone, however they ended
	if root := os.Getenv("PVMC_SCRATCH_ROOT"); root != "" {
		if os.MkdirAll(root, 0777) == nil {
			base = root
		}
	}
	dir, err := ioutil.TempDir(base, "pvmc."+prefix+".")
	if err != nil {
		panic(err)
	}
	return dir
}

// CopyDB copies the SQLite file (and its journal / wal / shm if present) from one db path to another.
func CopyDB(srcPath, dstPath string) error {
	os.MkdirAll(filepath.Dir(dstPath), 0777)
	for _, suf := range []string{"", "-journal", "-wal", "-shm"} {
		s := srcPath + ".v4" + suf
		dd := dstPath + ".v4" + suf
		in, err := os.Open(s)
		if err != nil {
			os.Remove(dd)
			if suf == "" {
				return err
			}
			continue
		}
		out, err := os.Create(dd)
		if err != nil {
			in.Close()
			return err
		}
		_, err = io.Copy(out, in)
		in.Close()
		out.Close()
		if err != nil {
			return err
		}
	}
	return nil
}

func gid() uint64 {
	var buf [64]byte
	n := runtime.Stack(buf[:], false)
	b := buf[:n]
	b = b[len("goroutine "):]
	i := bytes.IndexByte(b, ' ')
	id, _ := strconv.ParseUint(string(b[:i]), 10, 64)
	return id
}

// CacheState is the only ledger-relevant state a running node keeps outside the database:
// the averaging window cache. Together with a copy of the database file it is a full clone
// of a running node between two blocks.
type CacheState struct {
	Data     map[fat2.PTicker][]uint64
	Averages map[fat2.PTicker]uint64
	Height   uint32
	Full     NodeState // the whole in-memory state (see clone.go)
}

func (d *Daemon) CacheSnapshot() CacheState {
	cs := CacheState{Height: d.Node.LastAveragesHeight, Full: d.Snapshot()}
	if d.Node.LastAveragesData != nil {
		cs.Data = map[fat2.PTicker][]uint64{}
		for k, v := range d.Node.LastAveragesData {
			cs.Data[k] = append([]uint64(nil), v...)
		}
	}
	if d.Node.LastAverages != nil {
		cs.Averages = map[fat2.PTicker]uint64{}
		for k, v := range d.Node.LastAverages {
			cs.Averages[k] = v
		}
	}
	return cs
}

func (d *Daemon) CacheRestore(cs CacheState) {
	d.Restore(cs.Full)
	d.Node.LastAveragesHeight = cs.Height
	d.Node.LastAveragesData, d.Node.LastAverages = nil, nil
	if cs.Data != nil {
		d.Node.LastAveragesData = map[fat2.PTicker][]uint64{}
		for k, v := range cs.Data {
			d.Node.LastAveragesData[k] = append([]uint64(nil), v...)
		}
	}
	if cs.Averages != nil {
		d.Node.LastAverages = map[fat2.PTicker]uint64{}
		for k, v := range cs.Averages {
			d.Node.LastAverages[k] = v
		}
	}
}

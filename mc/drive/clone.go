package drive

import (
	"database/sql"
	"fmt"
	"reflect"
	"sort"
	"strings"
	"sync"
	"unsafe"

	"github.com/Factom-Asset-Tokens/factom"
	"github.com/pegnet/pegnetd/node"
	"github.com/spf13/viper"
)

// A running node's state outside the database is whatever its object graph holds: on the pinned tree the
// three averaging-cache fields, but a change to pegnetd may add more (memo fields, caches inside the Pegnet
// helper, ...). NodeState is therefore a generic deep copy of the *node.Pegnetd object graph, made by
// reflection (unexported fields included), with the handles that bind a node to its files and to the
// network left out: *sql.DB, *viper.Viper, *factom.Client. Locks are copied as fresh, unlocked locks.

// NodeState is a detached deep copy of a node's in-memory state.
type NodeState struct {
	n *node.Pegnetd
	g GlobalState // the package-level variables of the pegnetd packages (globals.go)
}

// IsZero reports whether the state holds nothing (a node that was just started).
func (s NodeState) IsZero() bool { return s.n == nil }

var (
	tSQLDB   = reflect.TypeOf((*sql.DB)(nil))
	tViper   = reflect.TypeOf((*viper.Viper)(nil))
	tFactom  = reflect.TypeOf((*factom.Client)(nil))
	tMutex   = reflect.TypeOf(sync.Mutex{})
	tRWMutex = reflect.TypeOf(sync.RWMutex{})
)

func isHandle(t reflect.Type) bool { return t == tSQLDB || t == tViper || t == tFactom }

// settable returns v made addressable-and-settable even if it was reached through an unexported field.
func settable(v reflect.Value) reflect.Value {
	if v.CanSet() {
		return v
	}
	return reflect.NewAt(v.Type(), unsafe.Pointer(v.UnsafeAddr())).Elem()
}

// deepCopy copies src into dst (both addressable values of the same type).
func deepCopy(dst, src reflect.Value, seen map[unsafe.Pointer]reflect.Value) {
	dst, src = settable(dst), settable(src)
	t := src.Type()
	switch {
	case isHandle(t):
		return // left nil: bound by the caller
	case t == tMutex || t == tRWMutex:
		return // a fresh, unlocked lock
	}
	switch src.Kind() {
	case reflect.Ptr:
		if src.IsNil() {
			dst.Set(reflect.Zero(t))
			return
		}
		if isHandle(t) {
			return
		}
		p := unsafe.Pointer(src.Pointer())
		if c, ok := seen[p]; ok {
			dst.Set(c)
			return
		}
		c := reflect.New(t.Elem())
		seen[p] = c
		deepCopy(c.Elem(), src.Elem(), seen)
		dst.Set(c)
	case reflect.Struct:
		for i := 0; i < src.NumField(); i++ {
			deepCopy(dst.Field(i), src.Field(i), seen)
		}
	case reflect.Map:
		if src.IsNil() {
			dst.Set(reflect.Zero(t))
			return
		}
		m := reflect.MakeMapWithSize(t, src.Len())
		it := src.MapRange()
		for it.Next() {
			k := reflect.New(t.Key()).Elem()
			deepCopy(k, addressable(it.Key()), seen)
			v := reflect.New(t.Elem()).Elem()
			deepCopy(v, addressable(it.Value()), seen)
			m.SetMapIndex(k, v)
		}
		dst.Set(m)
	case reflect.Slice:
		if src.IsNil() {
			dst.Set(reflect.Zero(t))
			return
		}
		s := reflect.MakeSlice(t, src.Len(), src.Len())
		for i := 0; i < src.Len(); i++ {
			deepCopy(s.Index(i), src.Index(i), seen)
		}
		dst.Set(s)
	case reflect.Array:
		for i := 0; i < src.Len(); i++ {
			deepCopy(dst.Index(i), src.Index(i), seen)
		}
	case reflect.Interface:
		if src.IsNil() {
			dst.Set(reflect.Zero(t))
			return
		}
		e := src.Elem()
		c := reflect.New(e.Type()).Elem()
		deepCopy(c, addressable(e), seen)
		dst.Set(c)
	case reflect.Chan, reflect.Func, reflect.UnsafePointer:
		dst.Set(src) // shared: no such state on the pinned tree
	default:
		dst.Set(src)
	}
}

// addressable returns an addressable copy of v (map keys / values and interface contents are not addressable).
func addressable(v reflect.Value) reflect.Value {
	if v.CanAddr() {
		return v
	}
	c := reflect.New(v.Type()).Elem()
	c.Set(v)
	return c
}

func cloneNode(src *node.Pegnetd) *node.Pegnetd {
	if src == nil {
		return nil
	}
	dst := new(node.Pegnetd)
	deepCopy(reflect.ValueOf(dst).Elem(), reflect.ValueOf(src).Elem(), map[unsafe.Pointer]reflect.Value{})
	return dst
}

// Snapshot returns a detached copy of the node's in-memory state.
func (d *Daemon) Snapshot() NodeState {
	globInit()
	return NodeState{n: cloneNode(d.Node), g: GlobalsSnapshot()}
}

// Restore overwrites the node's in-memory state with a copy of s, keeping the node's own handles (database,
// configuration, client) and its committed sync height.
func (d *Daemon) Restore(s NodeState) {
	if s.n == nil {
		return
	}
	GlobalsRestore(s.g)
	c := cloneNode(s.n)
	db, conf, cl, sync := d.Node.Pegnet.DB, d.Node.Config, d.Node.FactomClient, d.Node.Sync
	pconf := d.Node.Pegnet.Config
	*d.Node = *c
	d.Node.Config, d.Node.FactomClient, d.Node.Sync = conf, cl, sync
	if d.Node.Pegnet == nil {
		panic("harness: node state without a Pegnet")
	}
	d.Node.Pegnet.DB = db
	d.Node.Pegnet.Config = pconf
}

// Fingerprint renders every value reachable from the state (handles and locks excluded) in a canonical order:
// two states with equal fingerprints are the same in-memory state.
func (s NodeState) Fingerprint() string {
	if s.n == nil {
		return "fresh"
	}
	var sb strings.Builder
	fingerprint(&sb, reflect.ValueOf(s.n).Elem(), map[unsafe.Pointer]bool{}, "")
	return sb.String()
}

func fingerprint(sb *strings.Builder, v reflect.Value, seen map[unsafe.Pointer]bool, path string) {
	v = settableOrSelf(v)
	t := v.Type()
	if isHandle(t) || t == tMutex || t == tRWMutex {
		return
	}
	switch v.Kind() {
	case reflect.Ptr, reflect.Interface:
		if v.IsNil() {
			return
		}
		if v.Kind() == reflect.Ptr {
			p := unsafe.Pointer(v.Pointer())
			if seen[p] {
				return
			}
			seen[p] = true
		}
		fingerprint(sb, addressable(v.Elem()), seen, path)
	case reflect.Struct:
		for i := 0; i < v.NumField(); i++ {
			name := t.Field(i).Name
			if name == "Sync" && path == "" {
				continue // the committed height lives in the database
			}
			fingerprint(sb, v.Field(i), seen, path+"."+name)
		}
	case reflect.Map:
		if v.Len() == 0 {
			return
		}
		var parts []string
		it := v.MapRange()
		for it.Next() {
			var ks, vs strings.Builder
			fingerprint(&ks, addressable(it.Key()), seen, "")
			fingerprint(&vs, addressable(it.Value()), seen, "")
			parts = append(parts, ks.String()+"=>"+vs.String())
		}
		sort.Strings(parts)
		fmt.Fprintf(sb, "%s{%s}", path, strings.Join(parts, ","))
	case reflect.Slice, reflect.Array:
		if v.Len() == 0 {
			return
		}
		fmt.Fprintf(sb, "%s[", path)
		for i := 0; i < v.Len(); i++ {
			fingerprint(sb, v.Index(i), seen, "")
			sb.WriteByte(' ')
		}
		sb.WriteByte(']')
	case reflect.Chan, reflect.Func, reflect.UnsafePointer:
	default:
		fmt.Fprintf(sb, "%s=%v;", path, valueOf(v))
	}
}

func settableOrSelf(v reflect.Value) reflect.Value {
	if v.CanInterface() || !v.CanAddr() {
		return v
	}
	return reflect.NewAt(v.Type(), unsafe.Pointer(v.UnsafeAddr())).Elem()
}

func valueOf(v reflect.Value) interface{} {
	if v.CanInterface() {
		return v.Interface()
	}
	switch v.Kind() {
	case reflect.Bool:
		return v.Bool()
	case reflect.Int, reflect.Int8, reflect.Int16, reflect.Int32, reflect.Int64:
		return v.Int()
	case reflect.Uint, reflect.Uint8, reflect.Uint16, reflect.Uint32, reflect.Uint64, reflect.Uintptr:
		return v.Uint()
	case reflect.Float32, reflect.Float64:
		return v.Float()
	case reflect.String:
		return v.String()
	}
	return "?"
}

// Package canon produces canonical dumps of a pegnetd SQLite database: every
// table, every column except surrogate row ids and wall-clock stamps, rows sorted.
package canon

import (
	"crypto/sha256"
	"database/sql"
	"encoding/hex"
	"fmt"
	"sort"
	"strings"

	_ "github.com/mattn/go-sqlite3"
)

// dropped columns: surrogate ids and the only wall-clock value in the schema.
var dropped = map[string]map[string]bool{
	"pn_addresses":                 {"id": true},
	"snapshot_past":                {"id": true},
	"snapshot_current":             {"id": true},
	"pn_history_txbatch":           {"history_id": true},
	"pn_transaction_batch_holding": {"id": true},
	"pn_sync_version":              {"unix_timestamp": true},
}

// Dump is table -> sorted canonical rows.
type Dump map[string][]string

// Options select a projection.
type Options struct {
	// Only, if non-empty, restricts to these tables.
	Only []string
	// Skip removes these tables.
	Skip []string
	// KeepZeroAddressRows keeps pn_addresses rows whose balances are all zero.
	KeepZeroAddressRows bool
	// DropCols removes further columns: table -> column names.
	DropCols map[string][]string
}

// Without returns a copy of o that also drops the given column of the given table.
func (o Options) Without(table string, cols ...string) Options {
	n := o
	n.DropCols = map[string][]string{}
	for k, v := range o.DropCols {
		n.DropCols[k] = v
	}
	n.DropCols[table] = append(append([]string{}, n.DropCols[table]...), cols...)
	return n
}

// Ledger is the projection used by most differential oracles: everything except pn_sync_version.
var Ledger = Options{Skip: []string{"pn_sync_version"}, KeepZeroAddressRows: true}

// LedgerNZ is Ledger without all-zero address rows (an all-zero row and an absent
// row are indistinguishable to every reader in pegnetd).
var LedgerNZ = Options{Skip: []string{"pn_sync_version"}}

// All is every table (pn_sync_version without its wall-clock column).
var All = Options{KeepZeroAddressRows: true}

// Admin is pn_sync_version + pn_metadata.
var Admin = Options{Only: []string{"pn_sync_version", "pn_metadata"}}

func openRO(path string) (*sql.DB, error) {
	return sql.Open("sqlite3", "file:"+path+"?mode=ro&_busy_timeout=10000")
}

// File dumps the database file at path (read-only connection; hot journals are
// recovered by SQLite only when opened read-write, so use FileRW for crash images).
func File(path string, o Options) (Dump, error) {
	db, err := openRO(path)
	if err != nil {
		return nil, err
	}
	defer db.Close()
	return DB(db, o)
}

// FileWAL opens read-write in write-ahead-log mode. go-sqlite3 v1.11 switches a database to its default
// journal mode on open unless the DSN names one, which fails ("database is locked" / "disk I/O error")
// while another connection has the write-ahead log attached: WAL databases must be opened this way.
func FileWAL(path string, o Options) (Dump, error) {
	db, err := sql.Open("sqlite3", "file:"+path+"?_journal=WAL&_busy_timeout=10000")
	if err != nil {
		return nil, err
	}
	defer db.Close()
	return DB(db, o)
}

// FileRW opens read-write (needed for hot-journal recovery of crash images).
func FileRW(path string, o Options) (Dump, error) {
	db, err := sql.Open("sqlite3", "file:"+path+"?_busy_timeout=10000")
	if err != nil {
		return nil, err
	}
	defer db.Close()
	return DB(db, o)
}

type Queryer interface {
	Query(query string, args ...interface{}) (*sql.Rows, error)
}

func DB(db Queryer, o Options) (Dump, error) {
	rows, err := db.Query(`SELECT name FROM sqlite_master WHERE type='table' AND name NOT LIKE 'sqlite_%' ORDER BY name`)
	if err != nil {
		return nil, err
	}
	var tables []string
	for rows.Next() {
		var n string
		if err := rows.Scan(&n); err != nil {
			rows.Close()
			return nil, err
		}
		tables = append(tables, n)
	}
	rows.Close()
	only := map[string]bool{}
	for _, t := range o.Only {
		only[t] = true
	}
	skip := map[string]bool{}
	for _, t := range o.Skip {
		skip[t] = true
	}
	d := Dump{}
	for _, t := range tables {
		if len(only) > 0 && !only[t] {
			continue
		}
		if skip[t] {
			continue
		}
		rs, err := dumpTable(db, t, o)
		if err != nil {
			return nil, fmt.Errorf("dump %s: %v", t, err)
		}
		d[t] = rs
	}
	return d, nil
}

func dumpTable(db Queryer, t string, o Options) ([]string, error) {
	rows, err := db.Query(`SELECT * FROM "` + t + `"`)
	if err != nil {
		return nil, err
	}
	defer rows.Close()
	cols, err := rows.Columns()
	if err != nil {
		return nil, err
	}
	drop := map[string]bool{}
	for c := range dropped[t] {
		drop[c] = true
	}
	for _, c := range o.DropCols[t] {
		drop[c] = true
	}
	var out []string
	vals := make([]interface{}, len(cols))
	ptrs := make([]interface{}, len(cols))
	for i := range vals {
		ptrs[i] = &vals[i]
	}
	isAddr := t == "pn_addresses" || strings.HasPrefix(t, "snapshot_")
	for rows.Next() {
		if err := rows.Scan(ptrs...); err != nil {
			return nil, err
		}
		var toks []string
		for i, c := range cols {
			if drop[c] {
				continue
			}
			var val string
			switch v := vals[i].(type) {
			case nil:
				val = "NULL"
			case []byte:
				val = "x'" + hex.EncodeToString(v) + "'"
			case int64:
				if isAddr && strings.HasSuffix(c, "_balance") && v == 0 {
					continue // compact: zero balances are omitted from the text
				}
				val = fmt.Sprintf("%d", v)
			case string:
				val = fmt.Sprintf("%q", v)
			default:
				val = fmt.Sprintf("%v", v)
			}
			toks = append(toks, c+"="+val)
		}
		if isAddr {
			// balance columns by name, not by physical position: a table upgraded in place may order them differently
			var head, bals []string
			for _, tk := range toks {
				if strings.Contains(tk, "_balance=") {
					bals = append(bals, tk)
				} else {
					head = append(head, tk)
				}
			}
			sort.Strings(bals)
			toks = append(head, bals...)
		}
		if isAddr && len(toks) == 1 && !o.KeepZeroAddressRows {
			// only the address column is left: an all-zero row, which is
			// indistinguishable from an absent row through every reader in pegnetd
			// except snapshot membership; kept out of the ledger projection.
			continue
		}
		out = append(out, strings.Join(toks, " "))
	}
	if err := rows.Err(); err != nil {
		return nil, err
	}
	sort.Strings(out)
	return out, nil
}

// Hash returns a SHA-256 over the dump.
func (d Dump) Hash() string {
	names := make([]string, 0, len(d))
	for n := range d {
		names = append(names, n)
	}
	sort.Strings(names)
	h := sha256.New()
	for _, n := range names {
		fmt.Fprintf(h, "#%s %d\n", n, len(d[n]))
		for _, r := range d[n] {
			h.Write([]byte(r))
			h.Write([]byte{'\n'})
		}
	}
	return hex.EncodeToString(h.Sum(nil))[:24]
}

// Diff lists differing rows (at most max lines).
func Diff(a, b Dump, max int) []string {
	var out []string
	names := map[string]bool{}
	for n := range a {
		names[n] = true
	}
	for n := range b {
		names[n] = true
	}
	var ns []string
	for n := range names {
		ns = append(ns, n)
	}
	sort.Strings(ns)
	for _, n := range ns {
		am, bm := map[string]int{}, map[string]int{}
		for _, r := range a[n] {
			am[r]++
		}
		for _, r := range b[n] {
			bm[r]++
		}
		var keys []string
		for r := range am {
			if am[r] != bm[r] {
				keys = append(keys, r)
			}
		}
		for r := range bm {
			if am[r] != bm[r] && am[r] == 0 {
				keys = append(keys, r)
			}
		}
		sort.Strings(keys)
		// pair rows that share their first token (the key column) and show only differing tokens
		first := func(r string) string {
			if i := strings.IndexByte(r, ' '); i > 0 {
				return r[:i]
			}
			return r
		}
		minus, plus := map[string]string{}, map[string]string{}
		for _, r := range keys {
			if am[r] > bm[r] {
				minus[first(r)] = r
			} else {
				plus[first(r)] = r
			}
		}
		paired := map[string]bool{}
		for k, mr := range minus {
			pr, ok := plus[k]
			if !ok {
				continue
			}
			mt, pt := strings.Split(mr, " "), strings.Split(pr, " ")
			if len(mt) != len(pt) {
				continue
			}
			var d []string
			for i := range mt {
				if mt[i] != pt[i] {
					d = append(d, clip(mt[i])+" -> "+clip(pt[i]))
				}
			}
			if len(out) < max {
				out = append(out, fmt.Sprintf("~ %s: %s: %s", n, clip(k), strings.Join(d, "; ")))
			}
			paired[mr], paired[pr] = true, true
		}
		for _, r := range keys {
			if paired[r] {
				continue
			}
			if len(out) >= max {
				return append(out, "...")
			}
			if am[r] > bm[r] {
				out = append(out, fmt.Sprintf("- %s: %s", n, clip(r)))
			} else {
				out = append(out, fmt.Sprintf("+ %s: %s", n, clip(r)))
			}
		}
	}
	return out
}

func clip(s string) string {
	if len(s) > 300 {
		return s[:300] + "…"
	}
	return s
}

// Equal reports whether two dumps are identical.
func Equal(a, b Dump) bool { return a.Hash() == b.Hash() }

// TablesDiffering names the tables whose rows differ.
func TablesDiffering(a, b Dump) []string {
	set := map[string]bool{}
	for n := range a {
		set[n] = true
	}
	for n := range b {
		set[n] = true
	}
	var out []string
	for n := range set {
		if strings.Join(a[n], "\n") != strings.Join(b[n], "\n") {
			out = append(out, n)
		}
	}
	sort.Strings(out)
	return out
}

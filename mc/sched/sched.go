// Package sched is a cooperative scheduler for stateless model checking of real
// goroutines: registered threads park at scheduling points (database operations,
// handler entry/exit) and exactly one thread runs at a time. The explorer
// replays a prefix of choices and takes the default afterwards.
package sched

import (
	"bytes"
	"fmt"
	"runtime"
	"strconv"
	"sync"
	"time"
)

// Gid returns the current goroutine id.
func Gid() uint64 {
	var buf [64]byte
	n := runtime.Stack(buf[:], false)
	// "goroutine 123 [running]:"
	b := buf[:n]
	b = b[len("goroutine "):]
	i := bytes.IndexByte(b, ' ')
	id, _ := strconv.ParseUint(string(b[:i]), 10, 64)
	return id
}

// Point describes where a thread is parked.
type Point struct {
	Info    string
	Visible bool // the scheduler may switch away from the thread here
	// Enabled reports whether the thread may proceed (nil = always).
	Enabled func() bool
}

type thread struct {
	id     int
	name   string
	wake   chan struct{}
	parked bool
	done   bool
	point  Point
}

// Choice is one recorded decision.
type Choice struct {
	Options    []int // thread ids offered, canonical order: running thread first if enabled, then ascending
	Picked     int   // index into Options
	Preemptive bool  // the running thread was enabled (switching away costs a preemption)
	Step       int
}

// Sched runs one execution.
type Sched struct {
	mu      sync.Mutex
	threads []*thread
	byGid   map[uint64]*thread
	notify  chan struct{}
	prefix  []int
	Trace   []Choice
	step    int64
	last    *thread
	// Stuck is set when the running thread did not reach a scheduling point in time.
	Stuck     string
	Deadlock  string
	Diverged  string
	StepLimit int
	Timeout   time.Duration
}

func New(prefix []int) *Sched {
	return &Sched{byGid: map[uint64]*thread{}, notify: make(chan struct{}, 64), prefix: prefix, StepLimit: 100000, Timeout: 20 * time.Second}
}

// Go starts f as a scheduled thread. It runs only when the scheduler picks it.
func (s *Sched) Go(name string, f func()) int {
	s.mu.Lock()
	t := &thread{id: len(s.threads), name: name, wake: make(chan struct{}, 1)}
	s.threads = append(s.threads, t)
	s.mu.Unlock()
	ready := make(chan struct{})
	go func() {
		s.mu.Lock()
		s.byGid[Gid()] = t
		t.parked = true
		t.point = Point{Info: "start", Visible: true}
		s.mu.Unlock()
		close(ready)
		<-t.wake
		f()
		s.mu.Lock()
		t.done = true
		t.parked = false
		s.mu.Unlock()
		s.notify <- struct{}{}
	}()
	<-ready
	return t.id
}

// Now returns a logical timestamp (increases at every scheduling event).
func (s *Sched) Now() int64 {
	s.mu.Lock()
	defer s.mu.Unlock()
	s.step++
	return s.step
}

// Yield parks the calling goroutine at a scheduling point if it is a registered thread.
func (s *Sched) Yield(p Point) {
	s.mu.Lock()
	t := s.byGid[Gid()]
	if t == nil {
		s.mu.Unlock()
		return
	}
	t.parked = true
	t.point = p
	s.mu.Unlock()
	s.notify <- struct{}{}
	<-t.wake
}

// IsThread reports whether the caller is a scheduled thread, and its id.
func (s *Sched) IsThread() (int, bool) {
	s.mu.Lock()
	defer s.mu.Unlock()
	t := s.byGid[Gid()]
	if t == nil {
		return -1, false
	}
	return t.id, true
}

// Run drives the execution to completion.
func (s *Sched) Run() {
	var running *thread
	ci := 0
	for steps := 0; ; steps++ {
		if steps > s.StepLimit {
			s.Stuck = "step limit reached"
			return
		}
		// wait until the running thread has parked or finished
		if running != nil {
			deadline := time.After(s.Timeout)
		wait:
			for {
				s.mu.Lock()
				st := running.parked || running.done
				s.mu.Unlock()
				if st {
					break
				}
				select {
				case <-s.notify:
				case <-deadline:
					s.Stuck = fmt.Sprintf("thread %s did not reach a scheduling point within %v (blocked inside an operation)", running.name, s.Timeout)
					break wait
				}
			}
			if s.Stuck != "" {
				return
			}
		}
		s.mu.Lock()
		var enabled []*thread
		alive := 0
		for _, t := range s.threads {
			if t.done {
				continue
			}
			alive++
			if t.parked && (t.point.Enabled == nil || t.point.Enabled()) {
				enabled = append(enabled, t)
			}
		}
		if alive == 0 {
			s.mu.Unlock()
			return
		}
		if len(enabled) == 0 {
			var infos []string
			for _, t := range s.threads {
				if !t.done {
					infos = append(infos, t.name+"@"+t.point.Info)
				}
			}
			s.Deadlock = fmt.Sprint(infos)
			s.mu.Unlock()
			return
		}
		runEnabled := false
		if running != nil && !running.done {
			for _, t := range enabled {
				if t == running {
					runEnabled = true
				}
			}
		}
		var pick *thread
		if runEnabled && !running.point.Visible {
			pick = running // not a branch point: the running thread simply continues
		} else if len(enabled) == 1 {
			pick = enabled[0]
		} else {
			// choice point; canonical order: the running thread first if it is enabled, then ascending ids
			var opts []*thread
			if runEnabled {
				opts = append(opts, running)
			}
			for _, t := range enabled {
				if runEnabled && t == running {
					continue
				}
				opts = append(opts, t)
			}
			idx := 0
			if ci < len(s.prefix) {
				idx = s.prefix[ci]
				if idx >= len(opts) {
					s.Diverged = fmt.Sprintf("choice %d: prefix asks for option %d of %d", ci, idx, len(opts))
					idx = 0
				}
			}
			ci++
			ids := make([]int, len(opts))
			for i, t := range opts {
				ids[i] = t.id
			}
			s.Trace = append(s.Trace, Choice{Options: ids, Picked: idx, Preemptive: runEnabled, Step: steps})
			pick = opts[idx]
		}
		pick.parked = false
		s.mu.Unlock()
		running = pick
		pick.wake <- struct{}{}
	}
}

// Choices returns the picked option per choice point.
func (s *Sched) Choices() []int {
	out := make([]int, len(s.Trace))
	for i, c := range s.Trace {
		out[i] = c.Picked
	}
	return out
}

#!/bin/bash
# run_quick.sh [ids...] : runs the quick tier of the given checks (default: all) one after the other from /verif against /repo
cd /verif
IDS=${@:-C01 C02 C03 C04 C05 C06 C07 C08 C09 C10 C11 C12 C13 C14 C15 C16 C17 C18 C19 C20}
for p in $IDS; do
  s=$(date +%s)
  ./check.sh $p quick > quick_$p.out 2> quick_$p.err; rc=$?
  echo "== $p exit=$rc wall=$(( $(date +%s) - s ))s"
  grep "^$p quick\|^VIOLATION\|HARNESS" quick_$p.err quick_$p.out | head -3
done

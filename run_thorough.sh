#!/bin/bash
# run_thorough.sh C01 C02 ...: runs the thorough tier of each property in turn, summary to stdout
for p in "$@"; do
  s=$(date +%s)
  ./check.sh $p thorough > thorough_$p.out 2> thorough_$p.err; rc=$?
  e=$(date +%s)
  echo "== $p exit=$rc wall=$((e-s))s"
  grep "^$p thorough\|signature\|KNOWN\|HARNESS\|cap:" thorough_$p.err thorough_$p.out | cut -c1-260 | head -12
done
